# C02 - the consumer delivers every message once, in offset order, never concurrently.
#
# Implementation side: the REAL afkak.consumer.Consumer (consumer_lib.Driver: task.Clock, scripted stand-in client,
# fetch replies = real FetchResponse over bytes produced by an independent encoder, decoded by the real
# KafkaCodec._decode_message_set_iter) against an HONEST BROKER simulated over a partition log
# (consumer_log_lib.PartitionLog: gaps, magic 0/1, gzip wrappers at non-zero offsets, values larger than the fetch
# buffer, appends, retention) with injected retriable errors, overlapping replies, slow/failing/re-entrant processors,
# stops, shutdowns and restarts.
# Model side: coq/Model/Consumer.v (runner `consumer`) on the same event lists: full canonical trace compared.
# Monitors (coq/Model/ConsumerLog.v restated): REQ (one request / timer / commit outstanding), the delivered stream
# against the broker's log (offsets, keys, values; epochs = start positions), contiguity of fetch offsets, no overlap
# of processor invocations, completeness after a fault-free drain.
import random

import vlib

MODEL = "consumer"
MODULE = "Model.Consumer"
TIED = ["C02_single_fetch", "C02_no_overlap", "C02_delivered_in_order", "C02_fetch_offsets_contiguous", "C02_delivered_is_log_segment", "C02_never_idle", "C02_single_fetch_any_fuel", "C02_no_overlap_any_fuel", "C02_delivered_in_order_any_fuel", "C02_fetch_offsets_contiguous_any_fuel", "C02_delivered_is_log_segment_any_fuel", "C02_never_idle_any_fuel", "C02_extract_log_segment", "C02_extract_is_segment", "C02_extract_ordered",
        "C02_progress_partial"]


def libs():
    from props import consumer_lib as CL
    from props import consumer_log_lib as LL
    return CL, LL


def describe(c):
    return {"cfg(group,acn,acs,reset,maxatt,buf,maxbuf,gen,cap,fuel)": c[1:11], "events": c[11:71]}


def check_codec(CL, drv, events):
    """the offsets the real codec yields for the served bytes must be the ones the simulated broker put there"""
    bad = []
    step = 0
    for ev in events:
        step += 1
        if ev[0] == CL.EV_FETCH_OK and len(ev) > 3 and ev[3] is not None and step in drv.fetch_bytes and len(ev) == 4:
            got, small = CL.decode_offsets(ev[3])
            if got != list(ev[1]) or bool(small) != bool(ev[2]):
                bad.append((step, list(ev[3]), got, small, list(ev[1]), ev[2]))
    return bad


def monitors(CL, LL, cfg, events, drv, log):
    steps, ends = CL.split_steps(drv.trace)
    res = []
    entries = log.entries if log is not None else None
    m = LL.mon_req(events, steps, ends)
    if m:
        res.append(("C02_single_fetch (monitor REQ)", m))
    m = LL.mon_overlap(drv.calls)
    if m:
        res.append(("C02_no_overlap", m))
    m = LL.mon_start(events, steps)
    if m:
        res.append(("C02_progress (an accepted start() sends its first request)", m))
    m = LL.mon_never_idle(events, steps)
    if m:
        res.append(("C02_progress (an alive consumer whose processor is not running has a request or a refetch timer outstanding)", m))
    pw = LL.ProcWindow()
    for i, (ev, outs) in enumerate(zip(events, steps)):
        if ev[0] == CL.EV_START and not (outs and outs[0][0] == CL.OUT_IGNORED) and any(o[0] == CL.OUT_RET for o in outs):
            pw.started()
        pw.event(ev, True)
        for o in outs:
            b = pw.out(o)
            if b and "invoked" in b:
                res.append(("C02_no_overlap (trace form)", "step %d: %s" % (i, b)))
                break
    if entries is not None:
        m = LL.mon_log(events, steps, entries, cfg.reset)
        if m:
            res.append(("C02_delivered_is_log_segment", m))
        m = LL.mon_values(drv.values_seen, entries)
        if m:
            res.append(("C02_delivered_is_log_segment (key/value/offset are the broker's)", m))
        if getattr(log, "small", None) is not None:
            m = LL.mon_giveup(events, steps, log.small, cfg.maxbuf)
            if m:
                res.append(("C02_delivered_is_log_segment (no omission: giving up only when the message cannot fit)", m))
    return res


def plain_events(events):
    """events as they go into replay files / case lines (raw bytes dropped: they are re-derived from the log)"""
    _, LL = libs()
    return [list(e[:3]) if e[0] == 6 else list(LL.model_event(e)) for e in events]


def jsonable(events):
    out = []
    for e in events:
        e = list(e)
        if e and e[0] == 6 and len(e) > 3 and e[3] is not None:
            e[3] = list(e[3])
        out.append(e)
    return out


def run_case_impl(CL, cfg, events):
    """re-run an explicit event list (bytes included) on the implementation"""
    evs = []
    for e in events:
        e = list(e)
        if e[0] == CL.EV_FETCH_OK and len(e) > 3 and e[3] is not None:
            e[3] = bytes(e[3])
        evs.append(tuple(e))
    _, LL = libs()
    drv = LL.LDriver(cfg)
    drv.values_seen = []
    for ev in evs:
        drv.step(ev)
    return drv


def shrink(CL, LL, cfg, events, entries_holder, failing):
    """delta-debugging on the event list: drop events while `failing(drv, events)` still holds"""
    evs = list(events)
    n = 0
    chunk = max(1, len(evs) // 2)
    while chunk >= 1 and n < 200:
        i = 0
        progressed = False
        while i < len(evs) and n < 200:
            cand = evs[:i] + evs[i + chunk:]
            n += 1
            try:
                drv = run_case_impl(CL, cfg, cand)
                ok = failing(drv, cand)
            except Exception:
                ok = False
            if ok:
                evs = cand
                progressed = True
            else:
                i += chunk
        if not progressed or chunk == 1:
            chunk //= 2
    return evs


def corpus(CL, LL, rnd):
    """hand-made honest histories that must always be exercised"""
    out = []
    # (a) a magic-1 gzip wrapper at a non-zero offset, fetch position in its middle (F-C05-3), then a v0 wrapper
    log = LL.PartitionLog(random.Random(11), n=0, first=100)
    log.units.append(LL.Unit("gz", 1, [(100, None, b"a"), (101, b"k", b"b"), (102, None, None)]))
    log.units.append(LL.Unit("gz", 0, [(105, None, b"c"), (106, None, b"d")]))
    log.units.append(LL.Unit("plain", 1, [(110, b"kk", b"e")]))
    log.next = 111
    out.append(("wrapper-v1-middle", CL.Cfg(group=0, buf=4096), log, LL.OffsetStore(),
                [(CL.EV_START, 101)] + [(CL.EV_PLAN, 0, 0)] * 6, 12))
    # (b) messages larger than the buffer: growth x16 until the first message fits
    log = LL.PartitionLog(random.Random(12), n=0, first=7)
    log.units.append(LL.Unit("plain", 0, [(7, None, b"x" * 900)]))
    log.units.append(LL.Unit("plain", 1, [(9, None, b"y" * 3000)]))
    log.next = 10
    out.append(("bigger-than-buffer", CL.Cfg(group=0, buf=64), log, LL.OffsetStore(),
                [(CL.EV_START, CL.OFFSET_EARLIEST)] + [(CL.EV_PLAN, 0, 0)] * 6, 16))
    # (c) reply overlapping processing: slow processor, the next reply is parked
    log = LL.PartitionLog(random.Random(13), n=12, first=0)
    out.append(("reply-during-processing", CL.Cfg(group=1, acn=2, buf=4096), log, LL.OffsetStore(),
                [(CL.EV_START, 0)], 40))
    # (d) shutdown whose final commit fails (both attempts), then the application starts the consumer again (seeded C02-m6)
    log = LL.PartitionLog(random.Random(14), n=0, first=0)
    for o in range(8):
        log.units.append(LL.Unit("plain", 0, [(o, None, b"m%d" % o)]))
    log.next = 8
    out.append(("failed-shutdown-then-restart", CL.Cfg(group=1, acn=0, acs=0, maxatt=0, buf=64), log, LL.OffsetStore(),
                [(CL.EV_START, 0)] + [(CL.EV_PLAN, 0, 0)] * 3 + ["reply", (CL.EV_SHUTDOWN,), (CL.EV_COMMIT_FAIL, CL.FK_KAFKA),
                 (CL.EV_FIRE_COMMIT_RETRY,), (CL.EV_COMMIT_FAIL, CL.FK_KAFKA), (CL.EV_START, CL.OFFSET_EARLIEST)], 0))
    return out


def probe_parked_garbled(CL, LL):
    """F-C02-1 probe.  Buffer 64, log of 8 plain messages (two per reply); start(0); the processor returns a pending
    Deferred for [0, 1]; the refetch timer fires: fetch(2); the reply [2, 3] with message 3's CRC broken arrives while
    the processor is busy (parked); the Deferred fires; the parked reply is re-handled from _msg_block_d's callback
    chain: [2] is delivered, ChecksumError escapes into that Deferred.  observed = afterwards the consumer is alive with
    no request outstanding and no refetch timer (un-parked, the same reply goes through _handle_fetch_error and is
    re-fetched).  -> (observed, cfg, events, log)"""
    cfg = CL.Cfg(group=0, acn=0, buf=64)
    log = LL.PartitionLog(random.Random(3), n=0, first=0)
    for o in range(8):
        log.units.append(LL.Unit("plain", 0, [(o, None, b"m%d" % o)]))
    log.next = 8

    def on_event(env, drv, ev):
        if ev[0] == CL.EV_FETCH_OK:
            env.corrupt = 1.0
    first = [(CL.EV_START, 0), (CL.EV_PLAN, 0, 2), (CL.EV_PLAN, 0, 0), (CL.EV_PLAN, 0, 0), "reply", (CL.EV_FIRE_RETRY,), "reply",
             (CL.EV_PROC_FIRE, 1)]
    events, drv, env = LL.honest_run(random.Random(1), cfg, log, LL.OffsetStore(), 0, fault=0.0, first=first, on_event=on_event)
    steps, _ = CL.split_steps(drv.trace)
    idle = LL.mon_never_idle(events, steps)
    c = drv.consumer
    observed = bool(env.corrupted == 1 and idle and c._request_d is None and c._retry_call is None
                    and c._start_d is not None and not c._start_d.called)
    return observed, cfg, events, log


def run(ck):
    vlib.import_repo()
    CL, LL = libs()
    CL.quiet()
    ck.build([MODEL])
    ck.props()
    rnd = random.Random(ck.seed)
    thorough = ck.tier == "thorough"
    scale = 12 if thorough else 1

    cases, impl, meta = [], [], []
    stall_known = [False]

    def add(label, cfg, events, drv, log, model=True):
        if model:        # histories with replies garbled in transit are outside the Gallina model (C12): monitors only
            cases.append(CL.case_line(cfg, plain_events(events)))
            impl.append(list(drv.trace))
            meta.append((label, cfg, events, log))
        if getattr(drv, "escaped", None):
            ck.violation({"kind": "an exception escaped a stimulus of the driver", "at_event": drv.escaped[0], "error": drv.escaped[1],
                          "traceback": drv.escaped[2], "cfg": cfg.line(), "events": jsonable(events), "replay_op": "events"})
        for ev in events:
            ck.hist("ev_" + CL.EV_NAMES[ev[0]])
        if drv.float_bad:
            ck.violation({"kind": "retry delay is not the expected element of the delay sequence", "detail": repr(drv.float_bad[:3]),
                          "cfg": cfg.line(), "events": jsonable(events), "replay_op": "events"})
        for (thm, what) in monitors(CL, LL, cfg, events, drv, log):
            entries = log.entries if log is not None else None
            if label == "garbled" and thm.startswith("C02_progress (an alive") and stall_known[0]:
                ck.hist("garbled_reply_parked_then_stalled (F-C02-1)")      # reported once, through the directed probe
                continue

            def failing(d, evs, thm=thm):
                return any(t == thm for (t, _) in monitors(CL, LL, cfg, evs, d, log))
            small = shrink(CL, LL, cfg, events, None, failing) if len(events) <= 400 else events
            d2 = run_case_impl(CL, cfg, small)
            ck.violation({"kind": "monitor", "theorem": thm, "what": what, "cfg": cfg.line(), "events": jsonable(small),
                          "log": [[o, list(k) if k is not None else None, list(v) if v is not None else None] for (o, k, v) in (entries or [])],
                          "small": sorted((getattr(log, "small", None) or {}).items()),
                          "reset": cfg.reset, "impl_trace": list(d2.trace)[:400], "replay_op": "events"})
        for b in check_codec(CL, drv, events):
            ck.violation({"kind": "message-set decoding: offsets yielded by the codec differ from what the broker served",
                          "step": b[0], "bytes": b[1], "codec_offsets": b[2], "codec_toosmall": b[3], "served_offsets": b[4],
                          "served_partial_first": b[5], "replay_op": "bytes"})

    # --- 0. finding probe F-C02-1: a garbled reply parked behind a busy processor stalls the consumer for ever
    obs, cfg_p, ev_p, log_p = probe_parked_garbled(CL, LL)
    stall_known[0] = obs
    ck.finding("F-C02-1", obs,
               "a fetch reply parked behind a busy processor whose decoding raises mid-way (ChecksumError, UnsupportedCodecError ...): the "
               "exception escapes into _msg_block_d's callback chain instead of _handle_fetch_error; no refetch is scheduled, the start "
               "Deferred does not fail, the consumer is idle for ever (the same reply un-parked is re-fetched)",
               {"kind": "finding probe: C02_progress (never idle) after a parked garbled reply", "cfg": cfg_p.line(), "events": jsonable(ev_p),
                "log": [[o, list(k) if k is not None else None, list(v) if v is not None else None] for (o, k, v) in log_p.entries],
                "reset": cfg_p.reset, "replay_op": "events"})

    # finding probe F-C03-3 (also a C02 clause: nothing of a reply fetched for one life is delivered into the next)
    for mode in ("async", "sync"):
        obs3, deliv3, sent3 = LL.probe_restart_in_errback(mode)
        ck.finding("F-C03-3", obs3,
                   "processor failure (%s) on [0, 1] of a reply [0..5]; the start Deferred's errback calls stop() and start(100); the rest of "
                   "the old reply is delivered into the new life (delivered %r)" % (mode, deliv3),
                   {"kind": "finding probe: restart from the start Deferred's errback", "mode": mode, "delivered": deliv3, "replay_op": "restart_probe"})

    # --- 1. corpus
    for (name, cfg, log, store, first, steps) in corpus(CL, LL, rnd):
        events, drv, env = LL.honest_run(random.Random(5), cfg, log, store, steps, first=first, fault=0.0,
                                         drain=(40 if name == "failed-shutdown-then-restart" else 0),
                                         weights={CL.EV_STOP: 0, CL.EV_SHUTDOWN: 0, CL.EV_START: 0, "retain": 0,
                                                  CL.EV_PLAN: 0 if name != "reply-during-processing" else 6})
        ck.hist("corpus_" + name)
        add("corpus:" + name, cfg, events, drv, log)
        if name == "wrapper-v1-middle" and drv.delivered[:5] != [101, 102, 105, 106, 110]:
            ck.violation({"kind": "corpus wrapper-v1-middle: delivered %r, log holds 101 102 105 106 110 from 101" % drv.delivered[:8],
                          "cfg": cfg.line(), "events": jsonable(events), "replay_op": "events"})
        if name == "failed-shutdown-then-restart":
            k = max(i for i, e in enumerate(events) if e[0] == CL.EV_START)
            steps_, _ = CL.split_steps(drv.trace)
            after = [x for outs in steps_[k:] for o in outs if o[0] == CL.OUT_CALLPROC for x in o[2:]]
            if after != list(range(8)):
                ck.violation({"kind": "corpus failed-shutdown-then-restart: after a shutdown whose commit failed the restarted consumer was handed %r; the log holds 0..7"
                                      % (after,), "cfg": cfg.line(), "events": jsonable(events), "replay_op": "events"})
        if name == "bigger-than-buffer" and drv.delivered[:2] != [7, 9]:
            ck.violation({"kind": "corpus bigger-than-buffer: delivered %r instead of [7, 9]" % drv.delivered[:4],
                          "cfg": cfg.line(), "events": jsonable(events), "replay_op": "events"})

    # --- 2. honest-broker histories
    n_honest = 110 * scale
    complete_checked = 0
    for i in range(n_honest):
        cfg = CL.gen_cfg(rnd)
        big = rnd.random() < 0.35
        if big:
            cfg.buf = rnd.choice([64, 128, 256])
            cfg.maxbuf = rnd.choice([-1, -1, 1 << 20, cfg.buf * 16, cfg.buf, cfg.buf * 3, cfg.buf * 5, 700, 1000, 1500])
        long = (not big) and rnd.random() < 0.3          # a long log against a small buffer: many replies per start position
        if long:
            cfg.buf = rnd.choice([256, 512, 1024])
            cfg.maxbuf = -1
            log = LL.PartitionLog(rnd, n=rnd.randint(80, 150))
        else:
            log = LL.PartitionLog(rnd, big=big)
        store = LL.OffsetStore(rnd.choice([None, None] + [o for (o, k, v) in log.entries][:6]))
        length = rnd.choice([25, 40, 60, 90]) * (2 if thorough else 1)
        drain = 300 if long else 80                      # always: the completeness monitor below needs a quiet, fault-free tail
        if long:
            ck.hist("long_log_runs")
        events, drv, env = LL.honest_run(rnd, cfg, log, store, length, fault=rnd.choice([0.0, 0.08, 0.2]), drain=drain)
        log.small = env.small
        add("honest", cfg, events, drv, log)
        ck.hist("honest_runs")
        ck.hist("delivered_messages", len(drv.delivered))
        ck.hist("processor_calls", len(drv.calls))
        for u in log.units:
            ck.hist("log_unit_%s_magic%d" % (u.kind, u.magic))
        for ev in events:
            if ev[0] == CL.EV_FETCH_OK:
                ck.hist("fetch_reply_toosmall" if ev[2] else ("fetch_reply_empty" if not ev[1] else "fetch_reply_msgs"))
        # completeness after a fault-free drain: if the consumer is alive and idle, everything in the log from the
        # start position has been delivered
        if drain and not drv.stopped_flag() and not drv.consumer._start_d.called:
            obs = drv.observe()
            steps_, _ = CL.split_steps(drv.trace)
            st = epoch_start(CL, events, steps_, cfg.reset)
            if st is not None and st >= 0 and obs["procs_pending"] == 0 and not parked(drv) and quiet_drain(CL, events, env):
                want = [o for (o, k, v) in log.entries if o >= st]      # within one start position nothing is skipped (retention
                # that overtakes the consumer answers OffsetOutOfRange: a new start position)
                got = delivered_since_epoch(CL, events, steps_, cfg.reset)
                if cfg.maxbuf != -1 and any(len(u.data) > cfg.maxbuf for u in log.units):
                    want = None     # a message can never fit: the consumer rightly gives up (C14)
                if want is not None:
                    complete_checked += 1
                    if got != want:
                        ck.violation({"kind": "monitor", "theorem": "C02_delivered_is_log_segment (no omission after a fault-free drain)",
                                      "what": "delivered since start %d: %r..., log holds %r..." % (st, got[:12], want[:12]),
                                      "cfg": cfg.line(), "events": jsonable(events), "reset": cfg.reset,
                                      "log": [[o, list(k) if k is not None else None, list(v) if v is not None else None] for (o, k, v) in log.entries],
                                      "replay_op": "events"})
    ck.hist("completeness_checked", complete_checked)

    # --- 2a. short honest histories over short logs with a big buffer: nearly every reply carries messages, and the cases are small
    #         enough for many of them to be re-evaluated inside Coq (vm_compute sample)
    for i in range(70 * scale):
        cfg = CL.gen_cfg(rnd)
        cfg.buf, cfg.maxbuf = 65536, -1
        log = LL.PartitionLog(rnd, n=rnd.randint(8, 20))
        ents = [o for (o, k, v) in log.entries]
        store = LL.OffsetStore(rnd.choice([None] + ents[:3]))
        events, drv, env = LL.honest_run(rnd, cfg, log, store, rnd.choice([8, 12, 16]), fault=rnd.choice([0.0, 0.1]),
                                         first=[(CL.EV_START, rnd.choice([CL.OFFSET_EARLIEST, CL.OFFSET_COMMITTED, ents[0], ents[len(ents) // 2]]))],
                                         weights={"append": 4, "retain": 0, CL.EV_PLAN: 8})
        log.small = env.small
        add("honest-short", cfg, events, drv, log)
        ck.hist("short_honest_runs")
        for ev in events:
            if ev[0] == CL.EV_FETCH_OK:
                ck.hist("fetch_reply_toosmall" if ev[2] else ("fetch_reply_empty" if not ev[1] else "fetch_reply_msgs"))

    # --- 2b. replies garbled in transit: one message in the middle of a multi-message reply fails its CRC, the real codec
    #         yields the messages before it and raises; what was extracted must not be fetched / delivered again
    ncorrupt = 0
    for i in range(60 * scale):
        cfg = CL.gen_cfg(rnd)
        cfg.buf = rnd.choice([4096, 65536])
        cfg.maxbuf = -1
        cfg.maxatt = 0
        log = LL.PartitionLog(rnd, n=rnd.randint(15, 50))
        ents = [o for (o, k, v) in log.entries]
        events, drv, env = LL.honest_run(rnd, cfg, log, LL.OffsetStore(), rnd.choice([30, 50]), fault=0.05, corrupt=0.35,
                                         first=[(CL.EV_START, rnd.choice([CL.OFFSET_EARLIEST, ents[0], ents[len(ents) // 3]])),
                                                (CL.EV_PLAN, 0, 0), (CL.EV_PLAN, 0, 0)],
                                         weights={CL.EV_STOP: 0.3, CL.EV_SHUTDOWN: 0.2, "retain": 0, CL.EV_PLAN: 9})
        ncorrupt += env.corrupted
        add("garbled", cfg, events, drv, log, model=(env.corrupted == 0))
        ck.hist("garbled_reply_runs")
    ck.hist("garbled_replies", ncorrupt)

    # --- 3. arbitrary (also dishonest) environments: correspondence + the log-independent monitors
    n_any = 100 * scale
    for i in range(n_any):
        cfg, events, drv = CL.gen_case(rnd, rnd.choice([20, 40, 70]))
        add("any", cfg, events, drv, None)
        ck.hist("arbitrary_runs")

    # --- 3b. composed: the real Consumer over the REAL KafkaClient (afkak/client.py and decode_fetch_response are between
    #         the log and the processor); scripted brokers: the partition leader and the group coordinator MOVE between three
    #         nodes (a broker that is no longer the leader answers NotLeaderForPartition), connections drop, requests time out.
    #         Monitors only: order / gaps / repeats against the log (mon_log over wire requests and answers), key/value/offset,
    #         overlap, commit value.  Logs of up to 120 entries against 128..4096-byte buffers.
    from props import consumer_compose_lib as CC
    ncomp = 40 * scale
    moved = 0
    for i in range(ncomp):
        log = LL.PartitionLog(rnd, n=rnd.choice([10, 30, 60, 120]))
        ents = [o for (o, k, v) in log.entries]
        store0 = rnd.choice([None, None] + ents[:4])
        store = LL.OffsetStore(store0)
        cfgc = dict(acn=rnd.choice([0, 1, 3]), acs=0, reset=rnd.choice([0, 1, 2]), maxatt=0, buf=rnd.choice([128, 256, 1024, 4096]),
                    gen=-1, leader=rnd.choice([1, 2, 3]), coord=rnd.choice([1, 2, 3]))
        seed = rnd.randrange(1 << 30)
        run = CC.run_life(random.Random(seed), log, store, rnd.choice([80, 140, 200]),
                          [CL.OFFSET_EARLIEST, CL.OFFSET_EARLIEST, CL.OFFSET_COMMITTED, ents[0] if ents else 0, ents[len(ents) // 2] if ents else 0],
                          fault=rnd.choice([0.05, 0.15, 0.3]), moves=rnd.choice([0.0, 1.5, 4.0]), **cfgc)
        ck.hist("composed_lives")
        ck.hist("composed_delivered", len(run.delivered))
        ck.hist("composed_fetch_requests", len(run.fetches))
        nm = sum(1 for e in run.log_events if e[0] == "move")
        moved += nm
        bad = CC.monitors(run, store0)
        if run.escaped:
            bad.append(("no exception escapes a stimulus", "step %d: %s" % (run.escaped[0], run.escaped[1])))
        for (thm, what) in bad:
            ck.violation({"kind": "monitor (composed: real Consumer over real KafkaClient, scripted brokers, moving leader)", "theorem": thm,
                          "what": what, "cfg": cfgc, "seed": seed, "events": [list(e) for e in run.log_events], "store0": store0,
                          "log_units": CC.log_units_json(log), "replay_op": "composed"})
    ck.hist("composed_leader_or_coordinator_moves", moved)
    ck.cov["evaluations"] += ncomp

    # --- 4. correspondence with the proved model
    diffs, mo = ck.correspond(MODEL, MODULE, cases, impl, "real Consumer vs Model.Consumer (full canonical trace; honest-broker + arbitrary schedules)",
                              nontrivial=lambda c, o: any(x[0] == CL.OUT_CALLPROC for st in CL.split_steps(o)[0] for x in st), describe=describe)
    # a larger in-Coq sample: the smallest cases first, several batches of vlib's budget each (the call above samples only the
    # first cases that fit one batch)
    label_ = "real Consumer vs Model.Consumer (full canonical trace; honest-broker + arbitrary schedules)"
    pairs = sorted(zip(cases, mo), key=lambda p: len(p[0]) + len(p[1]))
    extra, pos = 0, 0
    for batch in range(4 if not thorough else 10):
        chunk, size = [], 0
        while pos < len(pairs) and len(chunk) < 60:
            s = len(vlib.encode_line(pairs[pos][0])) + len(vlib.encode_line(pairs[pos][1]))
            if size + s > 19000:
                break
            chunk.append(pairs[pos])
            size += s
            pos += 1
        if not chunk:
            break
        n_, bad_ = ck.coq_sample(MODEL, MODULE, chunk)
        extra += n_
        if bad_:
            ck.violation({"kind": "extracted model and vm_compute disagree on %d of %d sampled cases" % (bad_, n_)}, no_input=True)
    ck.cov["correspondence"][label_]["in_coq_sample"] += extra
    ck.hist("in_coq_sample_cases", ck.cov["correspondence"][label_]["in_coq_sample"])
    if diffs and not ck.violations:
        i = diffs[0]
        label, cfg, events, log = meta[i]
        k = next((j for j, (a, b) in enumerate(zip(impl[i], mo[i])) if a != b), min(len(impl[i]), len(mo[i])))
        ck.violation({"kind": "correspondence broken", "correspondence": "corr:consumer:trace", "theorems_no_longer_tied": TIED,
                      "family": label, "cfg": cfg.line(), "events": jsonable(events), "first_difference_at": k,
                      "impl": impl[i][max(0, k - 12):k + 12], "model": mo[i][max(0, k - 12):k + 12], "replay_op": "events"}, no_input=True)
    for o in mo:
        try:
            fuel_out = any(x[0] == CL.OUT_FUEL for st in CL.split_steps(o)[0] for x in st)
        except Exception:
            fuel_out = True
        if fuel_out and not ck.violations:
            ck.violation({"kind": "model ran out of fuel (theorems assume it does not)"}, no_input=True)
            break

    if thorough:
        ck.coqchk(["AV.Props.C02"])
    ck.cov["rule"] = ("seeded generator (random.Random(VERIF_SEED)): partition logs with compaction gaps, plain and gzip-wrapped (also multi-member) "
                      "messages in format 0 and 1, values up to 900 bytes against 64..1024-byte buffers with and without a maximum (also maxima that "
                      "are not a growth step), logs of up to 150 entries, appends and retention; schedules of start (numeric, earliest, latest, "
                      "committed), stop, shutdown, commit, processor plans (sync, failing, slow, paused, already failed, calling stop / commit / "
                      "shutdown), timer firings, honest replies, injected retriable errors, replies garbled in transit (monitors only); every honest "
                      "history is drained fault-free; short honest histories; arbitrary (dishonest) reply streams; composed lives over the real "
                      "KafkaClient with moving leader / coordinator (monitors only).  A case is non-trivial if the processor was invoked; distinct = "
                      "distinct canonical case lines.")
    ck.assumptions += [
        "hand-written Gallina model Model/Consumer.v stands for afkak/consumer.py:290-1131 (tie: this run's full-trace correspondence)",
        "message keys/values are outside the Gallina model (offsets only); they are compared on the implementation side with the simulated broker's log",
        "the honest broker, the coordinator store and the scripted brokers are simulations (harness/props/consumer_log_lib.py, consumer_compose_lib.py) "
        "written from the Kafka protocol guide",
        "the Python monitors are hand re-writes of the Coq automata (REQ, PW, FIFO/LOG, never-idle); only the trace correspondence ties them to the theorems",
        "fuel: the *_any_fuel theorems need no fuel hypothesis (fuel_enough is proved); the other run-level forms assume run_fuel_ok; the harness derives "
        "its fuel from the input size and reports any OFuel output of the model",
        "replies whose decoding raises mid-way, application callbacks that re-enter the consumer (F-C03-3 family) and the real KafkaClient (composed "
        "stream) are outside the model: monitors only",
        "message-set decoding is afkak's real KafkaCodec over bytes from an independent encoder; its outcome is checked against what the broker served",
        "extraction: ExtrOcamlBasic; a sample of the smallest cases (several batches) is re-evaluated inside Coq by vm_compute",
    ]
    ck.cov["trusted_base"] += ["correspondence harness harness/props/C02.py, consumer_lib.py, consumer_log_lib.py + harness/vlib.py",
                               "extracted OCaml runner (ExtrOcamlBasic) cross-checked by vm_compute sample"]


def parked(drv):
    return drv.req is not None and drv.req[1].called and drv.consumer._request_d is not None


def quiet_drain(CL, events, env):
    """the run ended with a fault-free drain without API calls that either confirmed the end of the log or ran 40 events"""
    if env.drain_from is None:
        return False
    tail = events[env.drain_from:]
    return all(e[0] not in (CL.EV_START, CL.EV_STOP, CL.EV_SHUTDOWN) for e in tail) and (env.drain_done or len(tail) >= 40)


def quiet_tail(CL, events):
    """the last events were all part of the drain (no API call among the last 40)"""
    return all(e[0] not in (CL.EV_START, CL.EV_STOP, CL.EV_SHUTDOWN) for e in events[-40:])


def epoch_start(CL, events, steps, reset):
    """start position of the current epoch (None while unresolved), by the rules of consumer_log_lib.mon_log"""
    st, rk = None, None
    for ev, outs in zip(events, steps):
        t = ev[0]
        accepted = not (outs and outs[0][0] == CL.OUT_IGNORED)
        if t == CL.EV_START and accepted and any(o[0] == CL.OUT_RET for o in outs):
            st = ev[1]
        elif t == CL.EV_REQ_OK and accepted and rk in (CL.R_OFFREQ, CL.R_OFFFETCH):
            st = ev[1] if rk == CL.R_OFFREQ else (ev[1] + 1 if ev[1] != -1 else -1)
        elif t == CL.EV_REQ_FAIL and accepted and rk == CL.R_FETCH and ev[1] == CL.FK_OOR and reset != 0:
            st = -1
        for o in outs:
            if o[0] == CL.OUT_FETCH:
                rk = CL.R_FETCH
            elif o[0] == CL.OUT_OFFREQ:
                rk = CL.R_OFFREQ
            elif o[0] == CL.OUT_OFFFETCH:
                rk = CL.R_OFFFETCH
    return st


def delivered_since_epoch(CL, events, steps, reset):
    """offsets handed to the processor since the last change of start position"""
    D, rk = [], None
    for ev, outs in zip(events, steps):
        t = ev[0]
        accepted = not (outs and outs[0][0] == CL.OUT_IGNORED)
        if t == CL.EV_START and accepted and any(o[0] == CL.OUT_RET for o in outs):
            D = []
        elif t == CL.EV_REQ_OK and accepted and rk in (CL.R_OFFREQ, CL.R_OFFFETCH):
            D = []
        elif t == CL.EV_REQ_FAIL and accepted and rk == CL.R_FETCH and ev[1] == CL.FK_OOR and reset != 0:
            D = []
        for o in outs:
            if o[0] == CL.OUT_FETCH:
                rk = CL.R_FETCH
            elif o[0] == CL.OUT_OFFREQ:
                rk = CL.R_OFFREQ
            elif o[0] == CL.OUT_OFFFETCH:
                rk = CL.R_OFFFETCH
            elif o[0] == CL.OUT_CALLPROC:
                D += list(o[2:])
    return D


def replay(rp):
    import json
    CL, LL = libs()
    CL.quiet()
    op = rp.get("replay_op")
    if op == "bytes":
        got, small = CL.decode_offsets(bytes(rp["bytes"]))
        print("codec now yields", got, "toosmall", small, "; broker served", rp["served_offsets"], rp["served_partial_first"])
        return 0 if (got == rp["served_offsets"] and bool(small) == bool(rp["served_partial_first"])) else 1
    if op == "events":
        cfg = CL.Cfg.from_line(rp["cfg"])
        drv = run_case_impl(CL, cfg, rp["events"])
        print("implementation trace now:", drv.trace[:600])
        print("delivered:", drv.delivered)
        bad = []
        if "log" in rp:
            class L(object):
                pass
            log = L()
            log.entries = [(o, None if k is None else bytes(k), None if v is None else bytes(v)) for (o, k, v) in rp["log"]]
            log.small = dict((int(k), v) for (k, v) in rp.get("small", []))
            evs = [tuple(e) for e in rp["events"]]
            bad = monitors(CL, LL, cfg, evs, drv, log)
        else:
            bad = monitors(CL, LL, cfg, [tuple(e) for e in rp["events"]], drv, None)
        print("monitor verdicts:", json.dumps(bad, indent=1, default=repr))
        return 1 if bad else 0
    if op == "restart_probe":
        obs3, deliv3, sent3 = LL.probe_restart_in_errback(rp["mode"])
        print("delivered:", deliv3, "commit requests:", sent3, "observed:", obs3)
        return 1 if obs3 else 0
    if op == "composed":
        from props import consumer_compose_lib as CC
        return CC.replay_composed(rp)
    print(json.dumps(rp, indent=1, default=repr)[:3000])
    return 1
