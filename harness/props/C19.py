# C19 - batching thresholds, time limit, cancellation, stop of afkak.producer.Producer.
# Drives the REAL Producer (props/producer_lib.py: task.Clock + scripted stand-in client covering the whole client
# contract) and the extracted model coq/Model/Producer.v on the same seeded event sequences, compares canonical
# traces, and runs monitors that restate the theorems of coq/Props/C19.v over the implementation's own trace.
import itertools
import random

import vlib
from props import producer_lib as L
from props import producer_check as PC

THEOREMS = ["C19_dispatch_iff", "C19_no_due_batch_waits", "C19_deferred_threshold", "C19_no_starvation", "C19_queue_exit",
            "C19_counters_exact", "C19_cancel_before_dispatch", "C19_cancelled_never_sent", "C19_cancel_after",
            "C19_stop", "C19_stop_cancellation", "C19_stop_outcomes", "C19_looper_until_stop", "C19_send_refused_when_stopping", "C19_stop_gives_stopped",
            "C19_nothing_after_stop"]
ACTIVITY = (1, 2, 4, 5, 6)     # produce, callLater, reset metadata, load metadata, version lookup


# ------------------------------------------------------------------ monitors (implementation trace only)
def steps2(run):
    """driver 2 (real KafkaClient): the steps of a run reconstructed from its model events and trace alone (the pairs
    the correspondence compares): unresolved = sends accepted so far minus outcomes seen; what the client is still
    doing is not visible at this level (busy / looper are reported as False; the end of the run is checked apart)"""
    out, unres, nsid = [], [], 0
    prev = {"unresolved": [], "busy": False, "looper": False}
    for i, (mev, outs) in enumerate(zip(run.events, run.trace)):
        snap = {"busy": False, "looper": False}
        if mev[0] in (1, 2):
            snap["sid"] = nsid
            if mev[0] == 1:
                unres = unres + [nsid]
            nsid += 1
        done = {o[1] for o in outs if o[0] == 7}
        before = dict(prev, unresolved=[s for s in unres if mev[0] != 1 or s != snap.get("sid")])
        unres = [s for s in unres if s not in done]
        snap["unresolved"] = list(unres)
        out.append((i, mev, [list(o) for o in outs], before, snap))
        prev = snap
    return out


def monitor2(run):
    """the stop clauses of C19 over a driver-2 run"""
    bad = monitor(run, only_stop=True, steps=steps2(run))
    if run.stopped_at is not None and run.busy():
        bad.append((len(run.events) - 1, "after-stop: the producer is still waiting on its client / a timer at the end of a run that was stopped"))
    return bad


def value_of_mev(mev):
    """the value delivered by the cancelled client Deferred, decoded from the model event [11] + value ints
    (producer_lib.value_ints): the same for driver 1 (scripted client) and driver 2 (real KafkaClient)"""
    tag = mev[1]
    if tag == 0:
        return ("empty",)
    if tag == 1:
        n = mev[2]
        f = mev[3:3 + n]
        return ("resp", [tuple(f[k:k + 4]) for k in range(0, n, 4)])
    if tag == 2:
        n1 = mev[2]
        f1 = mev[3:3 + n1]
        n2 = mev[3 + n1]
        f2 = mev[4 + n1:4 + n1 + n2]
        return ("failed", [tuple(f1[k:k + 4]) for k in range(0, n1, 4)], [tuple(f2[k:k + 3]) for k in range(0, n2, 3)])
    if tag == 3:
        return ("kafka", mev[2])
    return ("other", mev[2])


def monitor(run, only_stop=False, steps=None):
    """only_stop: the clauses about stop() and what follows it only (refused sends, nothing after stop, outcomes of
    stop(), cancelled-before-dispatch never on the wire, one partitioner per topic) - used over driver 2 (the real
    KafkaClient), where one environment event may be several model steps.
    returns [(step, 'tag: text')].  Uses only: the calls made on the producer, its configuration, what it asked of
    its client/reactor, and the state of the Deferreds it returned."""
    cfg = run.cfg
    bad = []
    stopped = False
    # runs in which every partition lookup completes at once: a dispatch shows on the wire in the same step
    immediate = (cfg["api"] in (1, 2) and all(e == 0 and hp for (_t, e, hp) in cfg.get("cache", []))
                 and len(cfg.get("cache", [])) == cfg["ntop"] and not any(ev[0] in (5, 6) for ev in run.events)
                 and not any(o[0] in (5, 6) for st in run.raw for o in st))
    never = {}          # sid -> step at which the caller was told request_sent=False
    on_wire = {}        # sid -> first step its messages were in a produce request
    outcomes = {}
    for (i, mev, outs, before, after) in (steps if steps is not None else PC.steps(run)):
        op = mev[0]
        ub = before["unresolved"]
        cnt_b = sum(PC.size_of(run, s)[0] for s in ub)
        byt_b = sum(PC.size_of(run, s)[1] for s in ub)
        idle_b = not before["busy"]
        # outside the honest environment (a result that omits payloads, a hand-over that raises: F-C01-5) sends of an
        # ended batch stay unresolved for ever, so "unresolved = queued or in flight" no longer holds: the checks that
        # rest on it stop there (the theorems still hold; the correspondence still compares every step)
        honest = run.dishonest_at is None or i < run.dishonest_at
        if honest and immediate and not stopped and op not in (1, 4, 11) and not idle_b and not only_stop:
            # C19_dispatch_iff, third case: a batch dispatched by an event that completes the batch in flight
            queued = [s for s in ub if s not in on_wire]
            first = [o for o in outs if o[0] == 1 and o[1] == 1]
            if first:
                cq = sum(PC.size_of(run, s)[0] for s in queued)
                bq = sum(PC.size_of(run, s)[1] for s in queued)
                if not PC.thr(cfg, cq, bq):
                    bad.append((i, "dispatch-iff: the event completing the batch in flight dispatched sends %r (%d msgs/%d bytes) below the thresholds n=%r b=%r"
                                % (queued, cq, bq, PC.thresholds(cfg)[0], PC.thresholds(cfg)[1])))
                ps = set(PC.produce_sids(first[0]))
                now = {o[1] for o in outs if o[0] == 7}
                if not ps <= set(queued) or any(s not in ps and s not in now for s in queued):
                    bad.append((i, "dispatch-iff: the batch dispatched at completion carries sends %r, the queue was %r"
                                % (sorted(ps), sorted(queued))))
        for o in outs:
            if o[0] == 1:
                for sid in PC.produce_sids(o):
                    on_wire.setdefault(sid, i)
                    if sid in never:
                        bad.append((i, "cancelled-sent: send %d was cancelled before dispatch at step %d (request_sent=False) "
                                       "but its messages are in a produce request" % (sid, never[sid])))
            if o[0] == 7:
                outcomes.setdefault(o[1], []).append(i)
                if o[2] == 0 and o[3] == L.K_CANCEL and o[4] == 0 and honest:
                    if o[1] in on_wire:
                        bad.append((i, "cancelled-sent: send %d told request_sent=False but its messages were sent at step %d" % (o[1], on_wire[o[1]])))
                    never[o[1]] = i
        if stopped:
            # C19_nothing_after_stop
            if any(o[0] in ACTIVITY for o in outs) or after["busy"]:
                bad.append((i, "after-stop: activity after stop(): %r" % (outs,)))
        if op == 1 and stopped:
            # C19_send_refused_when_stopping
            sid = after["sid"] if "sid" in after else run.send_ev[i]
            if outs != [[7, sid, 0, L.K_CANCEL, 0, 0, 0]] or sid in after["unresolved"]:
                bad.append((i, "refused: send_messages on a stopped producer produced %r, expected an immediate CancelledError(request_sent=False)" % (outs,)))
        if op == 1 and not stopped and honest and not only_stop:
            cnt, byt = mev[3], mev[4]
            if not idle_b:
                if outs:
                    bad.append((i, "dispatch-iff: send_messages while a batch is in flight produced %r" % (outs,)))
            else:
                expected = PC.thr(cfg, cnt_b + cnt, byt_b + byt)
                if bool(outs) != expected:
                    bad.append((i, "dispatch-iff: send_messages with %d msgs/%d bytes waiting (n=%r b=%r): dispatch expected=%s observed=%s"
                                % (cnt_b + cnt, byt_b + byt, PC.thresholds(cfg)[0], PC.thresholds(cfg)[1], expected, bool(outs))))
        if op == 4 and not stopped and honest and not only_stop:
            if not before["looper"] or not idle_b:
                if outs:
                    bad.append((i, "dispatch-iff: tick (timer armed=%s, batch in flight=%s) produced %r" % (before["looper"], not idle_b, outs)))
            else:
                if bool(outs) != bool(ub):
                    bad.append((i, "no-starvation: tick with no batch in flight and %d sends waiting: dispatch observed=%s" % (len(ub), bool(outs))))
                left = [s for s in ub if s in after["unresolved"]]
                if left and not after["busy"]:
                    bad.append((i, "no-starvation: sends %r still waiting after a tick with no batch in flight" % (left,)))
        if op == 3 and not only_stop:
            sid = mev[1]
            if sid in ub:
                ok = len(outs) == 1 and outs[0][:4] == [7, sid, 0, L.K_CANCEL] and outs[0][4] in (0, 1)
                if not ok:
                    bad.append((i, "cancel: cancel() of waiting send %d produced %r" % (sid, outs)))
                elif idle_b and not stopped and honest and outs[0][4] != 0:
                    bad.append((i, "cancel: cancel() with no batch in flight reported request_sent=True"))
                if after["busy"] != before["busy"] or after["unresolved"] != [s for s in ub if s != sid]:
                    bad.append((i, "cancel: cancel() changed more than the caller's Deferred"))
            elif outs:
                bad.append((i, "cancel: cancel() of a finished send produced %r" % (outs,)))
        if op == 11:
            if after["unresolved"]:
                bad.append((i, "stop: sends %r still outstanding after stop()" % (after["unresolved"],)))
            if any(o[0] in ACTIVITY for o in outs) or after["busy"] or after["looper"]:
                bad.append((i, "stop: stop() left activity behind: outputs %r busy=%s timer=%s" % (outs, after["busy"], after["looper"])))
            got = sorted(o[1] for o in outs if o[0] == 7)
            if got != sorted(ub):
                bad.append((i, "stop: outcomes inside stop() %r != outstanding sends %r" % (got, sorted(ub))))
            if mev[1:] == [-1]:
                for o in outs:
                    if o[0] == 7 and not (o[2] == 0 and o[3] in (L.K_CANCEL, L.K_TIDCANCEL)):
                        bad.append((i, "stop: outcome %r of stop() is not a cancellation error" % (o,)))
            else:
                # C19_stop_outcomes: a cancellation, or what the value delivered by the cancelled client Deferred
                # says about the send's payload
                v = value_of_mev(mev)
                kinds = {L.K_CANCEL, L.K_TIDCANCEL}
                acks_ok = set()
                if v[0] in ("kafka", "other"):
                    kinds.add(v[1])
                elif v[0] == "empty":
                    kinds.add(L.K_NORESP)
                if v[0] in ("resp", "failed"):
                    kinds |= {L.K_BROKER + e for (_t, _p, e, _o) in v[1] if e != 0}
                    acks_ok = {(t, p, 0, o) for (t, p, e, o) in v[1] if e == 0}
                if v[0] == "failed":
                    kinds |= {k for (_t, _p, k) in v[2]}
                for o in outs:
                    if o[0] != 7:
                        continue
                    ok = ((o[2] == 0 and o[3] in kinds) or (o[2] == 1 and tuple(o[3:7]) in acks_ok)
                          or (o[2] == 2 and cfg["acks"] == 0 and v[0] in ("empty", "failed")))
                    if not ok:
                        bad.append((i, "stop: outcome %r of stop() is neither a cancellation nor what the value %r delivered by the "
                                       "cancelled client Deferred says" % (o, v)))
            stopped = True
        # C19_no_due_batch_waits
        if not stopped and not after["busy"] and honest and not only_stop:
            ua = after["unresolved"]
            c = sum(PC.size_of(run, s)[0] for s in ua)
            b = sum(PC.size_of(run, s)[1] for s in ua)
            if ua and PC.thr(cfg, c, b):
                bad.append((i, "due-batch-waits: nothing in flight, %d msgs/%d bytes of sends %r waiting, threshold n=%r b=%r met"
                            % (c, b, ua, PC.thresholds(cfg)[0], PC.thresholds(cfg)[1])))
    # the time limit: the period handed to the reactor for the periodic call is batch_every_t, float-exact at the
    # start, and every re-arming lands on a whole multiple of it (clause "no longer than one period")
    clock = run.clock
    want = float(cfg["t"]) if (cfg["batch"] and cfg["t"]) else None
    if only_stop and not hasattr(clock, "looper_delays"):
        want, clock = None, type("NoLooperRecord", (), {"looper_delays": [], "looper_times": []})()
    if want is None:
        if clock.looper_delays:
            bad.append((0, "period: a periodic call was started (delays %r) although no time limit is configured" % (clock.looper_delays[:3],)))
    else:
        if not clock.looper_delays:
            bad.append((0, "period: batch_every_t=%r but no periodic call was started" % (cfg["t"],)))
        elif float(clock.looper_delays[0]).hex() != want.hex():
            bad.append((0, "period: the periodic call was started with delay %r, batch_every_t is %r" % (clock.looper_delays[0], cfg["t"])))
        for (d, (now, deadline)) in list(zip(clock.looper_delays, clock.looper_times))[1:]:
            q = deadline / want
            if not (0 < d <= want * (1 + 1e-12)) or abs(q - round(q)) > 1e-9 * max(1.0, abs(q)):
                bad.append((0, "period: periodic call re-armed at t=%r for t=%r (delay %r), not a multiple of batch_every_t=%r" % (now, deadline, d, cfg["t"])))
                break
    for sid, at in outcomes.items():
        if len(at) > 1:
            bad.append((at[1], "outcome-twice: send %d resolved at steps %r" % (sid, at)))
    bad += PC.partitioner_monitor(run)
    return bad


# ------------------------------------------------------------------ generators biased towards C19
def cfg_c19(rnd):
    cfg = L.gen_cfg(rnd)
    r = rnd.random()
    if r < 0.75:
        cfg["batch"] = True
        cfg["n"] = rnd.choice([0, 2, 3, 3, 4, 6])
        cfg["b"] = rnd.choice([0, 0, 40, 90, 200])
        cfg["t"] = rnd.choice([None, 5, 5, 30, 0.5])
    if rnd.random() < 0.7:      # metadata ready: dispatch puts the batch on the wire at once
        cfg["cache"] = [(t, 0, True) for t in range(cfg["ntop"])]
        cfg["api"] = rnd.choice([1, 2])
    return cfg


def small_scope(depth):
    """every sequence up to `depth` over a reduced alphabet, one fixed configuration (validation of the tie only)"""
    cfg = dict(acks=1, batch=True, n=2, b=0, t=5, max=2, api=1, codec=None, retry_interval=0.25, partitioner="scripted",
               ntop=1, nparts={0: 2}, cache=[(0, 0, True)], script={})
    alphabet = ["send0", "send1", "cancel0", "cancel1", "tick", "ok", "kafka", "timer0", "stop"]
    for d in range(1, depth + 1):
        for word in itertools.product(alphabet, repeat=d):
            yield cfg, word


def run_word(cfg, word):
    cfg = dict(cfg)
    cfg["script"] = {}
    run = L.ImplRun(cfg)
    pyevents = []
    for w in word:
        if w.startswith("send"):
            sid = run.nsid
            cfg["script"][L.make_key(sid, False)] = int(w[4])
            ev = ("send", sid, 0, False, [8])
        elif w.startswith("cancel"):
            ev = ("cancel", int(w[6]))
        elif w == "tick":
            ev = ("tick",)
        elif w == "ok":
            req = run.client.request
            cur = sorted((L.TOPICS.index(t), p) for (t, p) in req[1]) if req is not None and not req[0].called else [(0, 0)]
            ev = ("result", ("resp", [(t, p, 0, 5) for (t, p) in cur]))
        elif w == "kafka":
            ev = ("result", ("kafka", L.K_LEADERUNAVAIL))
        elif w == "timer0":
            live = [tid for tid, dc in sorted(run.clock.timers.items()) if dc in run.clock.calls]
            ev = ("timer", live[0] if live else 0)
        else:
            ev = ("stop", None)
        pyevents.append(ev)
        run.apply(ev)
    run.pyevents = pyevents
    return run


def cfg_c19_reenter(rnd):
    """as cfg_c19, batching on, and the application's errback of a cancelled send calls send_messages() re-entrantly
    (python event "recancel"; for the model: the send event right after the cancel event)"""
    cfg = cfg_c19(rnd)
    cfg["batch"] = True
    cfg["n"] = rnd.choice([2, 3, 3, 4, 6])
    cfg["b"] = rnd.choice([0, 0, 40, 90])
    cfg["t"] = rnd.choice([None, None, 5])
    cfg["reenter"] = rnd.choice([8, 16, 30])
    return cfg


# ------------------------------------------------------------------ driver 2: the real KafkaClient under the producer
def stop_partial_scenario(seed, acks=1, answered=1):
    """F-C19-4: one batch with a payload for each of two brokers is in flight, `answered` of the two brokers have
    answered, stop().  Returns the finished run (real Producer over the real KafkaClient, scripted brokers) or None
    if the cluster seed puts both partitions on one broker."""
    from props import producer_c01_lib as CL
    from props import C01 as D
    cfg = D.base_cfg2(acks, True, 3, n=4, nparts={0: 2}, ntop=1, known=[0], nbrokers=2, cluster_seed=seed)
    cfg["script"] = {}
    run = CL.make_run2(cfg)
    run.pyevents = []
    if run.cluster.leader[(0, 0)] == run.cluster.leader[(0, 1)]:
        return None
    for sid, ch in enumerate([0, 1]):
        cfg["script"][L.make_key(sid, False)] = ch
        CL.apply2(run, ("send", sid, 0, False, [12, 9]))
    left = answered
    for _ in range(50):
        breqs = CL.pending2(run)[0]
        other = [br for br in breqs if br.req["key"] != 0]
        prod = [br for br in breqs if br.req["key"] == 0]
        if other:
            CL.apply2(run, ("bans", other[0].rid, None))
        elif prod and left > 0:
            CL.apply2(run, ("bans", prod[0].rid, None))
            left -= 1
        else:
            break
    CL.apply2(run, ("stop",))
    return run


def stop_successes(run):
    """[(step, outcome, acknowledged?)] for every SUCCESS outcome inside a stop() step of a driver-2 run; acknowledged =
    a broker of the simulated cluster appended that payload at that offset before the stop"""
    res = []
    for (i, mev, outs, _b, _a) in steps2(run):
        if mev[0] != 11:
            continue
        for o in outs:
            if o[0] == 7 and o[2] != 0:
                ack = o[2] == 1 and any((t, p, base) == (o[3], o[4], o[6]) for (_st, _n, t, p, base, _kv) in run.cluster.appends)
                res.append((i, o, ack))
    return res


def check_driver2(ck, rnd, nrandom):
    """the stop clauses over the real client: directed F-C19-4 scenarios + seeded random driver-2 histories"""
    from props import producer_c01_lib as CL
    from props import C09
    runs, labels = [], []
    for seed in range(12):
        for acks in (1, -1):
            for answered in (0, 1, 2):
                r = stop_partial_scenario(seed, acks, answered)
                if r is not None:
                    runs.append(r)
                    labels.append("directed: two leaders, %d of 2 answered, stop (acks %d, cluster seed %d)" % (answered, acks, seed))
                    ck.hist("driver2_directed_stop_scenarios")
    for k in range(nrandom):
        runs.append(CL.gen_run2(rnd, C09.cfg_wire(rnd) if k % 2 else None))
        labels.append("random")
        ck.hist("driver2_random_histories")
    witness, nbad = None, 0
    for run, label in zip(runs, labels):
        msgs = monitor2(run)
        if run.problems:
            msgs = msgs + [(0, "driver: " + p) for p in run.problems[:3]]
        for (i, mev, outs, _b, _a) in steps2(run):
            if mev[0] == 11:
                ck.hist("driver2_stop_steps")
                if mev[1:] != [-1]:
                    ck.hist("driver2_stop_steps_with_a_value_delivered_by_the_cancelled_request")
        for (i, o, ack) in stop_successes(run):
            if ack or (o[2] == 2 and run.cfg["acks"] == 0):
                ck.hist("driver2_success_inside_stop_(F-C19-4)")
                if witness is None or label.startswith("directed") and not witness[1].startswith("directed"):
                    witness = (run, label, i, o)
            else:
                msgs.append((i, "stop: send %d SUCCEEDS inside stop() with %r but no broker acknowledged that payload at that offset" % (o[1], o)))
        if msgs:
            nbad += 1
            if nbad <= 3:
                ck.violation({"kind": "C19 stop monitor failed on the implementation trace (driver 2: real Producer over the real KafkaClient, scripted brokers)",
                              "theorems": ["C19_stop", "C19_stop_outcomes", "C19_send_refused_when_stopping", "C19_nothing_after_stop"],
                              "scenario": label, "monitor": [[int(a), str(b)] for (a, b) in msgs[:6]], "driver": 2, "cfg": CL.jsonable(run.cfg),
                              "pyevents": CL.jsonable(run.pyevents), "model_events": run.events, "impl_trace": run.trace, "replay_op": "run2"})
            else:
                ck.nviol = getattr(ck, "nviol", 0) + 1
    what = ("stop() while a batch spanning several brokers is in flight and one broker has already answered: the cancelled client request "
            "delivers the acknowledged payloads' responses, so those sends SUCCEED (truthfully, cf. C01) inside stop() instead of failing with "
            "a cancellation error; nothing further is transmitted")
    if witness is not None:
        run, label, i, o = witness
        ck.finding("F-C19-4", True, what, {"kind": "known finding reproduced (driver 2)", "scenario": label, "step": i, "outcome": [int(x) for x in o],
                                           "driver": 2, "cfg": CL.jsonable(run.cfg), "pyevents": CL.jsonable(run.pyevents),
                                           "model_events": run.events, "impl_trace": run.trace, "replay_op": "run2"})
    else:
        ck.finding("F-C19-4", False, what, {})


# ------------------------------------------------------------------ the check
def check_runs(ck, runs, label):
    nviol = 0
    flagged = set()
    for k, run in enumerate(runs):
        msgs = monitor(run)
        if run.problems:
            msgs = msgs + [(0, "driver: " + p) for p in run.problems[:3]]
        if msgs:
            flagged.add(k)
            nviol += 1
            if nviol <= 3:
                PC.report(ck, run, "C19 monitor failed on the implementation trace", msgs, monitor, THEOREMS)
            else:
                ck.nviol = getattr(ck, "nviol", 0) + 1
    diffs, mo = PC.correspond(ck, runs, label)
    for i in [d for d in diffs if d not in flagged][:2]:
        PC.report_diff(ck, runs[i], mo[i], label, THEOREMS, monitor)
    for i, run in enumerate(runs):
        if any(o[0] == 1 for st in run.trace for o in st):
            ck.hist("runs_with_produce")
        if any(ev[0] == 11 for ev in run.events):
            ck.hist("runs_with_stop")
    return diffs


def run(ck):
    vlib.import_repo()
    ck.build([PC.MODEL])
    ck.props()
    rnd = random.Random(ck.seed)
    scale = 1 if ck.tier == "quick" else 25
    # 1. the library's general generator (all of the client contract, metadata lookups, version discovery, retries)
    runs = PC.gen_runs(rnd, 700 * scale, hist=ck.hist)
    check_runs(ck, runs, "Producer vs Model.Producer.run_case (general generator)")
    # 2. biased towards batching: thresholds on counts and bytes, time limit, metadata ready
    runs = PC.gen_runs(rnd, 900 * scale, hist=ck.hist, cfg_fn=cfg_c19)
    check_runs(ck, runs, "Producer vs Model.Producer.run_case (batching generator)")
    # 2b. re-entrancy: cancel() of a send whose errback submits a new send from inside the callback
    runs = PC.gen_runs(rnd, 500 * scale, hist=ck.hist, cfg_fn=cfg_c19_reenter)
    for r in runs:
        ck.hist("reentrant_sends_from_a_cancelled_send's_errback", sum(1 for k, e in enumerate(r.events[1:]) if e[0] == 1 and r.events[k][0] == 3 and r.trace[k] and k + 1 in r.send_ev and any(pe[0] == "recancel" for pe in r.pyevents)))
    check_runs(ck, runs, "Producer vs Model.Producer.run_case (batching generator with re-entrant send_messages() from the errback of a cancelled send)")
    # 3. exhaustive small scope
    depth = 4 if ck.tier == "quick" else 5
    chunk, total = [], 0
    label = "Producer vs Model.Producer.run_case (all sequences up to depth %d over a 9-letter alphabet)" % depth
    for cfg, word in small_scope(depth):
        chunk.append(run_word(cfg, word))
        if len(chunk) >= 20000:
            total += len(chunk)
            check_runs(ck, chunk, label)
            chunk = []
    total += len(chunk)
    if chunk:
        check_runs(ck, chunk, label)
    ck.hist("small_scope_sequences", total)
    # 4. the stop clauses over the REAL KafkaClient (C01's driver 2): known finding F-C19-4 and the monitors
    check_driver2(ck, rnd, 150 * scale)
    if ck.tier == "thorough":
        ck.coqchk(["AV.Props.C19"])
    ck.cov["rule"] = ("seeded state-aware generator (random.Random(VERIF_SEED)) of event sequences over the real Producer: sends (1-4 messages, "
                      "null/empty/large values), bad sends, cancels of waiting/finished/unknown sends, ticks, metadata changes, metadata-load and "
                      "version-lookup completions, retry timers, client results ranging over the whole send_produce_request contract (responses "
                      "with error codes, FailedPayloadsError, Kafka and non-Kafka failures, empty results), stop with and without a value delivered "
                      "by the cancelled client Deferred; configurations over acks 0/1/-1, batched/unbatched, count/byte/time thresholds each possibly "
                      "disabled (0/None, also -1), attempt limits, codecs, api-version states, partitioners; plus every sequence up to the stated "
                      "depth over a 9-letter alphabet.  A case is non-trivial if its trace contains a produce request or an outcome; distinct = "
                      "distinct canonical case lines.")
    ck.assumptions += [
        "hand-written Gallina model Model/Producer.v stands for afkak/producer.py:181-251 (send_messages), 253-270 (stop), 298-339 (_next_partition), "
        "341-421 (_send_requests), 423-474 (_complete_batch_send/_check_send_batch/_send_batch), 495-524 (_cancel_send_messages), 526-703 "
        "(_handle_send_response), 705-714; tie checked by this run's correspondence only",
        "the client below the producer is a scripted stand-in whose results range over the contract of KafkaClient.send_produce_request / "
        "load_metadata_for_topics / get_api_version (Model.Producer.result_ok); the composition with the real KafkaClient is exercised by C01's driver",
        "Twisted Deferred/DeferredList/LoopingCall/inlineCallbacks semantics and task.Clock are modelled, not verified; a tick is the LoopingCall firing "
        "(that the reactor fires it every batch_every_t seconds is runtime behaviour)",
        "the partition chosen by the partitioner object is an oracle read back from the implementation (C18 covers the partitioners)",
        "no starvation is proved in event-order form (a tick with no batch in flight flushes the queue; a request leaves the queue only by dispatch or by "
        "its own outcome), not as a wall-clock bound",
        "intra-step order of outputs is not compared (outputs are sorted inside a step); monitors use the implementation's own order",
        "extraction: ExtrOcamlBasic only; sample of cases re-evaluated inside Coq by vm_compute",
    ]
    ck.cov["trusted_base"] += ["correspondence harness harness/props/C19.py + producer_check.py + producer_lib.py + harness/vlib.py",
                               "extracted OCaml runner (ExtrOcamlBasic) cross-checked by vm_compute sample"]


def replay(rp):
    if rp.get("replay_op") == "run2":
        vlib.import_repo()
        from props import producer_c01_lib as CL
        r = CL.replay_run2(rp["cfg"], rp["pyevents"])
        return {"monitor": [[int(a), str(b)] for (a, b) in monitor2(r)], "impl_trace": r.trace, "model_events": r.events,
                "successes_inside_stop": [[int(i), [int(x) for x in o], bool(a)] for (i, o, a) in stop_successes(r)]}
    return PC.replay(rp, monitor)
