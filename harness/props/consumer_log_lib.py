# Honest-broker environment for the consumer properties C02 / C03 (restates coq/Model/ConsumerLog.v on the
# implementation side).
#
#   PartitionLog   a partition log: entries (offset, key, value) with strictly increasing offsets and compaction gaps,
#                  stored as UNITS the way a broker stores them: plain messages (magic 0 / 1) or gzip wrapper messages
#                  (magic 0: inner offsets absolute; magic 1 / KIP-31: inner offsets relative, wrapper offset = last),
#                  values up to several hundred bytes (larger than small fetch buffers).  fetch(off, max_bytes) answers
#                  as a broker does: whole units from the one holding the first entry >= off, cut at max_bytes (partial
#                  trailing message), OffsetOutOfRange outside [log start, log end].  Bytes come from the independent
#                  encoder of consumer_lib (struct + zlib.crc32 + gzip), never from afkak.
#   OffsetStore    the coordinator's committed offset for the group.
#   honest_run     drives the REAL Consumer (consumer_lib.Driver) with a seeded schedule of API calls, processor
#                  behaviours, timers, and broker replies computed from the log/store (plus injected retriable errors).
#   monitors       the automata of coq/Model/ConsumerLog.v re-written over the implementation's trace, and the
#                  ground-truth comparison of everything handed to the processor with the log.
from props import consumer_lib as CL
from props.consumer_lib import (EV_START, EV_STOP, EV_SHUTDOWN, EV_COMMIT, EV_REQ_OK, EV_FETCH_OK, EV_REQ_FAIL, EV_PLAN,
                          EV_PROC_FIRE, EV_COMMIT_OK, EV_COMMIT_FAIL, EV_FIRE_RETRY, EV_FIRE_COMMIT_RETRY, EV_TICK,
                          FK_KAFKA, FK_OOR, FK_OTHER, FK_CANCELLED, FK_GEN, R_OFFREQ, R_OFFFETCH, R_FETCH, R_COMMIT,
                          T_RETRY, T_COMMIT, OUT_OFFREQ, OUT_OFFFETCH, OUT_FETCH, OUT_COMMIT, OUT_CALLPROC, OUT_SCHED,
                          OUT_CANCEL_TIMER, OUT_CANCEL_REQ, OUT_CANCEL_PROC, OUT_START_D, OUT_RET, OUT_RAISED,
                          OUT_IGNORED, OFFSET_EARLIEST, OFFSET_LATEST, OFFSET_COMMITTED, NONE)


# ---------------------------------------------------------------- the log
def gz_members(parts):
    """a gzip stream of several members (RFC 1952 allows it; java.util.zip / kafka brokers produce them when batches are
    concatenated): every member is a complete gzip file, the decoder must read them all"""
    return b"".join(CL.gz(p) for p in parts)


class Unit(object):
    __slots__ = ("kind", "magic", "entries", "data", "members")

    def __init__(self, kind, magic, entries, members=1):
        self.kind, self.magic, self.entries, self.members = kind, magic, entries, members
        vals = dict((o, v) for (o, k, v) in entries)
        keys = dict((o, k) for (o, k, v) in entries)
        offs = [o for (o, k, v) in entries]
        if kind == "plain":
            [(o, k, v)] = entries
            self.data = CL.enc_entry(o, CL.enc_message(magic, 0, k, v, ts=1000 + o))
        else:
            if magic == 0:
                inner = [CL.enc_entry(o, CL.enc_message(0, 0, keys[o], vals[o])) for o in offs]
            else:
                inner = [CL.enc_entry(o - offs[0], CL.enc_message(1, 0, keys[o], vals[o], ts=1000 + o)) for o in offs]
            k = max(1, min(members, len(inner)))
            cut = [len(inner) * j // k for j in range(k + 1)]
            parts = [b"".join(inner[cut[j]:cut[j + 1]]) for j in range(k)]
            self.data = CL.enc_entry(offs[-1], CL.enc_message(magic, 1, None, gz_members(parts), ts=1000 + offs[-1]))


class PartitionLog(object):
    def __init__(self, rnd, n=None, first=None, big=False):
        self.rnd = rnd
        self.units = []
        self.next = rnd.choice([0, 0, 3, 17, 100]) if first is None else first
        self.start = self.next           # log start offset (moves forward under retention)
        self.big = big
        self.append(rnd.randint(0, 25) if n is None else n)

    def value(self, o):
        r = self.rnd.random()
        if r < 0.08:
            return None                                   # tombstone
        if r < 0.16:
            return b""
        if self.big and r < 0.45:
            return (b"%d:" % o) + bytes([o % 251]) * self.rnd.choice([70, 130, 300, 900])
        return b"v%d" % o

    def key(self, o):
        return None if self.rnd.random() < 0.6 else b"k%d" % (o % 7)

    def append(self, n):
        """append n entries (with compaction gaps), grouped into plain messages and gzip wrappers"""
        rnd = self.rnd
        while n > 0:
            if rnd.random() < 0.3:
                k = min(n, rnd.randint(1, 5))
                ents = []
                for _ in range(k):
                    self.next += rnd.choice([0, 0, 0, 0, 1, 3])          # gap left by compaction
                    ents.append((self.next, None if rnd.random() < 0.7 else self.key(self.next), self.value(self.next)))
                    self.next += 1
                # magic-1 wrappers express gaps by relative offsets; magic-0 wrappers keep absolute ones
                self.units.append(Unit("gz", rnd.choice([0, 1]), ents, members=rnd.choice([1, 1, 2, 3])))
                n -= k
            else:
                self.next += rnd.choice([0, 0, 0, 0, 1, 2, 9])
                self.units.append(Unit("plain", rnd.choice([0, 1]), [(self.next, self.key(self.next), self.value(self.next))]))
                self.next += 1
                n -= 1

    @property
    def entries(self):
        return [e for u in self.units for e in u.entries]

    @property
    def end(self):
        return self.next

    def retain(self, nunits):
        """retention: drop the oldest units still present"""
        live = [u for u in self.units if u.entries[-1][0] >= self.start]
        live = live[nunits:]
        self.start = live[0].entries[0][0] if live else self.next

    def fetch(self, off, max_bytes):
        """-> ("oor",) | ("ok", data, offsets the codec must yield, raises ConsumerFetchSizeTooSmall?)"""
        if off < self.start or off > self.next:
            return ("oor",)
        data, exp = b"", []
        self.last_partial = None        # size of the unit served only in part (cut by max_bytes), if any
        self.last_spans = []            # (start byte, end byte, offsets) of the complete units served
        for u in self.units:
            if u.entries[-1][0] < off or u.entries[-1][0] < self.start:
                continue
            if len(data) + len(u.data) <= max_bytes:
                self.last_spans.append((len(data), len(data) + len(u.data), [o for (o, k, v) in u.entries]))
                data += u.data
                exp += [o for (o, k, v) in u.entries]
            else:
                data += u.data[:max_bytes - len(data)]
                self.last_partial = len(u.data)
                break
        # the real codec: nothing decoded and a partial message (>= 12 bytes? any partial) => ConsumerFetchSizeTooSmall
        return ("ok", data, exp, (not exp) and len(data) > 0)

    def corrupt(self, rnd, data):
        """flip one byte inside the k-th complete unit served last (k >= 1): the codec yields the units before it and
        then raises ChecksumError.  -> (bytes, offsets yielded before the fault) or None"""
        if len(self.last_spans) < 2:
            return None
        k = rnd.randrange(1, len(self.last_spans))
        a, b, _ = self.last_spans[k]
        pos = rnd.randrange(a + 16, b)          # inside the message (past offset, size, crc)
        bad = bytearray(data)
        bad[pos] ^= 0x5A
        before = [o for (_, _, offs) in self.last_spans[:k] for o in offs]
        return bytes(bad), before


class OffsetStore(object):
    def __init__(self, committed=None):
        self.committed = committed
        self.acked = []
        self.lost = []       # offsets the coordinator APPLIED although the consumer only saw a failure (reply lost)


# ---------------------------------------------------------------- processor results beyond consumer_lib's
class LDriver(CL.Driver):
    """plan result 3: the processor returns a Deferred that HAS FIRED but whose callback chain is paused on a pending one
    (succeed(x).addCallback(lambda _: pending)): to the consumer a pending result (model code 2; EV_PROC_FIRE fires the
    inner one).  plan result 4: it returns a Deferred that already failed (model code 1, same as raising)."""

    def step(self, ev):
        if ev[0] == EV_PROC_FIRE and ev[1] == 2 and self.enabled(ev):
            # the Deferred the processor returned fails with CancelledError although the consumer did not cancel it (the
            # processor's own timeout, a cancelled call inside it): to the consumer - and the model - a failure like any other
            from twisted.internet.defer import CancelledError
            from twisted.python.failure import Failure
            self.step_no += 1
            d = self.procs[0]
            d.errback(Failure(CancelledError()))
            self.procs = [x for x in self.procs if not x.called]
            self.out(CL.OUT_END, CL.v(self.consumer.last_processed_offset), CL.v(self.consumer.last_committed_offset))
            return
        return CL.Driver.step(self, ev)

    def processor(self, consumer, msgs):
        from twisted.internet.defer import Deferred, fail, succeed
        from twisted.python.failure import Failure
        special = self.plan[0][1] if (self.plan and self.plan[0][1] in (3, 4)) else None
        if special is not None:
            self.plan[0] = (self.plan[0][0], 0)
        r = CL.Driver.processor(self, consumer, msgs)
        if special == 3:
            inner = Deferred(lambda _d: self.out(CL.OUT_CANCEL_PROC))
            self.procs.append(inner)
            d = succeed(None)
            d.addCallback(lambda _: inner)
            return d
        if special == 4:
            return fail(Failure(CL.ProcessorBoom("scripted")))
        return r


class RDriver(LDriver):
    """implementation-side family (no model: callbacks of the application that re-enter the consumer are outside it):
    the application's errback on the Deferred of start() reacts to a failure by stop() followed at once by
    start(next restart offset) on the same Consumer.  Records the lives: (start offset, [blocks handed on during it])."""

    def __init__(self, cfg, restart_offsets=(), **kw):
        LDriver.__init__(self, cfg, **kw)
        self.restart_offsets = list(restart_offsets)
        self.lives = []                  # [start offset, [block, ...], restarted from an errback?]
        c = self.consumer
        orig_start = c.start

        def start(offset):
            d = orig_start(offset)
            self.lives.append([offset, [], False])

            def app_errback(f):
                if self.restart_offsets and c._start_d is d:
                    off = self.restart_offsets.pop(0)
                    try:
                        c.stop()
                    except Exception:
                        pass
                    c.start(off)
                    self.lives[-1][2] = True
                return None
            d.addErrback(app_errback)
            return d
        c.start = start

    def processor(self, consumer, msgs):
        if self.lives:
            self.lives[-1][1].append([m.offset for m in msgs])
        return LDriver.processor(self, consumer, msgs)


def probe_restart_in_errback(mode):
    """F-C03-3 witness.  mode "async": the Deferred the processor returned fails; "sync": the processor raises.
    -> (observed, delivered, commit request offsets)"""
    cfg = CL.Cfg(group=1, acn=2)
    drv = RDriver(cfg, restart_offsets=[100])
    drv.values_seen = []
    evs = [(EV_START, 0), (EV_PLAN, 0, 2 if mode == "async" else 1), (EV_PLAN, 0, 0), (EV_PLAN, 0, 0),
           (EV_FETCH_OK, [0, 1, 2, 3, 4, 5], False)] + ([(EV_PROC_FIRE, 0)] if mode == "async" else [])
    for ev in evs:
        drv.step(ev)
    sent = [a[0] for (_, w, a) in drv.sent if w == "commit"]
    obs = drv.delivered != [0, 1] or bool(sent) or drv.consumer.last_processed_offset is not None
    return obs, drv.delivered, sent


def mon_lives(lives, entries):
    """every life receives a prefix of the log from ITS start position, whatever happened to the previous life"""
    offs_log = [o for (o, k, v) in entries]
    for n, (st, blocks, restarted) in enumerate(lives):
        if st < 0:
            continue
        got = [x for b in blocks for x in b]
        want = [x for x in offs_log if x >= st][:len(got)]
        if got != want:
            return ("life %d (start(%d)%s) was handed %r; the log holds %r from there"
                    % (n, st, ", started from the errback of the previous life's start Deferred" if restarted else "", got[:10], want[:10]))
    return None


def model_event(ev):
    """the event as Model/Consumer.v knows it (processor results 3 / 4 are its 2 / 1)"""
    if ev[0] == EV_PLAN and ev[2] in (3, 4):
        return (ev[0], ev[1], {3: 2, 4: 1}[ev[2]])
    if ev[0] == EV_PROC_FIRE and ev[1] == 2:
        return (ev[0], 0)
    return ev


# ---------------------------------------------------------------- honest schedule
class Env(object):
    """what the scheduler needs to answer requests honestly"""

    def __init__(self, rnd, log, store, fault=0.12, corrupt=0.0):
        self.rnd, self.log, self.store, self.fault, self.corrupt = rnd, log, store, fault, corrupt
        self.corrupted = 0             # replies garbled in transit (their decoding raises mid-way: outside the Gallina model)
        self.small = {}                # fetch offset -> size of the message that did not fit the buffer of that request
        self.proc_cancel = 0.0         # probability that a failing processor Deferred fails with CancelledError (its own timeout)
        self.lost_commits = 0.0        # probability that a commit answered by a retriable failure was applied by the coordinator


def last_sent(drv, what):
    xs = [a for (_, w, a) in drv.sent if w == what]
    return xs[-1] if xs else None


def reply_event(env, drv):
    """the broker's answer to the outstanding offset / fetch request"""
    rnd = env.rnd
    kind = drv.req[0]
    if rnd.random() < env.fault:
        return (EV_REQ_FAIL, rnd.choice([FK_KAFKA, FK_KAFKA, FK_KAFKA, FK_OTHER]) if rnd.random() < 0.9 else FK_CANCELLED)
    if kind == R_OFFREQ:
        t = last_sent(drv, "offreq")
        return (EV_REQ_OK, env.log.start if t == OFFSET_EARLIEST else env.log.end)
    if kind == R_OFFFETCH:
        c = env.store.committed
        return (EV_REQ_OK, -1 if c is None else c)
    off, mb = last_sent(drv, "fetch")
    r = env.log.fetch(off, mb)
    if r[0] == "oor":
        return (EV_REQ_FAIL, FK_OOR)
    if r[3]:
        env.small[off] = env.log.last_partial       # the message at `off` did not fit max_bytes: its real size
    if env.corrupt and rnd.random() < env.corrupt:
        c = env.log.corrupt(rnd, r[1])
        if c is not None:
            env.corrupted += 1
            return (EV_FETCH_OK, c[1], False, c[0], "corrupt")
    return (EV_FETCH_OK, r[2], r[3], r[1])


def commit_event(env, drv):
    rnd = env.rnd
    if rnd.random() < env.fault:
        return (EV_COMMIT_FAIL, rnd.choice([FK_KAFKA, FK_KAFKA, FK_OTHER, FK_GEN]))
    return (EV_COMMIT_OK,)


def apply_store(env, drv, ev):
    """coordinator side effect of a commit acknowledgement (called BEFORE the event is delivered).  THE at-least-once
    corner: now and then the coordinator applies a commit whose answer is lost (the consumer sees a retriable failure)"""
    if ev[0] == EV_COMMIT_OK and drv.commit_pending():
        off = last_sent(drv, "commit")[0]
        env.store.committed = off
        env.store.acked.append(off)
    elif ev[0] == EV_COMMIT_FAIL and ev[1] == FK_KAFKA and drv.commit_pending() and env.lost_commits and env.rnd.random() < env.lost_commits:
        off = last_sent(drv, "commit")[0]
        if off is not None and off != NONE:
            env.store.committed = off
            env.store.lost.append(off)


def honest_event(env, drv, weights):
    rnd = env.rnd
    running = not drv.stopped_flag()
    w = {EV_START: 0.2 if running else 14, EV_STOP: 1.2 if running else 0.2, EV_SHUTDOWN: 0.8 if running else 0.1,
         EV_COMMIT: 2, "reply": 14, EV_PLAN: 6, EV_PROC_FIRE: 10, "commit_reply": 8, EV_FIRE_RETRY: 12,
         EV_FIRE_COMMIT_RETRY: 6, EV_TICK: 2, "append": 3.0, "retain": 0.3}
    if weights:
        w.update(weights)
    cands = []
    for t, wt in w.items():
        if wt <= 0:
            continue
        if t == "reply":
            ok = drv.req_pending()
        elif t == "commit_reply":
            ok = drv.commit_pending()
        elif t in ("append", "retain"):
            ok = True
        else:
            ok = drv.enabled((t,))
        if ok:
            cands.append((t, wt))
    tot = sum(x for _, x in cands)
    r = rnd.random() * tot
    for t, wt in cands:
        r -= wt
        if r <= 0:
            break
    if t == "reply":
        return reply_event(env, drv)
    if t == "commit_reply":
        return commit_event(env, drv)
    if t == "append":
        env.log.append(rnd.randint(1, 6))
        return None
    if t == "retain":
        env.log.retain(rnd.randint(1, 3))
        return None
    if t == EV_START:
        ents = [o for (o, k, v) in env.log.entries]
        nxt = (drv.delivered[-1] + 1) if drv.delivered else 0
        pick = rnd.choice(ents) if ents else 0
        return (t, rnd.choice([OFFSET_EARLIEST, OFFSET_EARLIEST, OFFSET_LATEST, OFFSET_COMMITTED, OFFSET_COMMITTED,
                               env.log.start, pick, pick, nxt, env.log.end, env.log.end + 5]))
    if t == EV_PLAN:
        return (t, rnd.choice([0] * 14 + [1, 2, 2, 3]), rnd.choice([0, 0, 0, 0, 0, 1, 2, 2, 2, 3, 3, 4]))
    if t == EV_PROC_FIRE:
        r = rnd.choice([1, 1, 1, 1, 0])
        if r == 0 and env.proc_cancel and rnd.random() < env.proc_cancel:
            r = 2          # it fails with CancelledError: the processor's own timeout (implementation-side families only)
        return (t, r)
    return (t,)


def honest_run(rnd, cfg, log, store, steps, weights=None, fault=0.12, first=None, drain=0, on_event=None, corrupt=0.0,
               lost_commits=0.0, driver_cls=None, proc_cancel=0.0, **kw):
    """-> (events, driver, env).  `first`: events applied first (e.g. the start).  `drain`: afterwards let the system
    run fault-free with a processor that returns at once for up to `drain` steps (for the completeness monitor)."""
    CL.quiet()
    env = Env(rnd, log, store, fault, corrupt)
    env.lost_commits = lost_commits
    env.proc_cancel = proc_cancel
    drv = (driver_cls or LDriver)(cfg, **kw)
    drv.values_seen = []
    drv.escaped = None               # an exception that escaped a stimulus (never expected): recorded, the run ends
    events = []

    def deliver(ev):
        if drv.escaped is not None:
            return
        if ev == "reply":                     # scripted histories: the honest answer to whatever is outstanding
            if not drv.req_pending():
                return
            ev = reply_event(env, drv)
        apply_store(env, drv, ev)
        events.append(ev)
        try:
            drv.step(ev)
        except Exception as e:       # noqa: an observable, not a crash of the check
            import traceback
            drv.escaped = (len(events), repr(e), traceback.format_exc()[-1500:])
            drv.out(CL.OUT_RAISED, CL.X_UNKNOWN)
            drv.out(CL.OUT_END, CL.v(drv.consumer.last_processed_offset), CL.v(drv.consumer.last_committed_offset))
        if on_event:
            on_event(env, drv, ev)
    for ev in (first or []):
        deliver(ev)
    for _ in range(steps):
        ev = honest_event(env, drv, weights)
        if ev is not None:
            deliver(ev)
    env.drain_from, env.drain_done = None, False
    if drain:
        env.drain_from = len(events)
        env.fault = 0
        calm = {EV_START: 0, EV_STOP: 0, EV_SHUTDOWN: 0, EV_COMMIT: 0, EV_PLAN: 0, "append": 0, "retain": 0, EV_TICK: 0}
        empties = 0
        for _ in range(drain):
            if len(drv.plan) < 3:
                deliver((EV_PLAN, 0, 0))
            ev = honest_event(env, drv, calm)
            if ev is not None:
                deliver(ev)
                if ev[0] == EV_FETCH_OK:
                    empties = empties + 1 if (not ev[1] and not ev[2]) else 0
            # the end of the log has been reached and confirmed (three empty replies in a row, nothing being processed):
            # further polling adds nothing
            if empties >= 3 and not [d for d in drv.procs if not d.called]:
                env.drain_done = True
                break
    return events, drv, env


# ---------------------------------------------------------------- monitors (Model/ConsumerLog.v, re-written)
class Reject(Exception):
    pass


def extract(foff, offs):
    """Model/Consumer.v extract = consumer.py:938-958"""
    ms = []
    for o in offs:
        if o < foff:
            continue
        ms.append(o)
        foff = o + 1
    return ms, foff


def mon_req(events, steps, ends):
    """REQ: one offset/fetch request, one refetch timer, one commit request outstanding; last_committed_offset (read at
    the end of every step) = last value acknowledged by a commit reply / reported by an offset-fetch reply."""
    rk, tm, co, lc = None, False, None, NONE
    ct = False            # REQ2 (Model/ConsumerLogC03.v): the commit-retry timer is armed
    for i, (ev, outs) in enumerate(zip(events, steps)):
        t = ev[0]
        if t == EV_FIRE_COMMIT_RETRY:
            ct = False
        if t == EV_REQ_OK and rk is not None:
            if rk == R_OFFREQ:
                rk = None
            elif rk == R_OFFFETCH:
                rk = None
                lc = ev[1] if ev[1] != -1 else NONE        # "nothing committed" is a report too (F-C03-4)
        elif t == EV_FETCH_OK and rk == R_FETCH:
            rk = None
        elif t == EV_REQ_FAIL:
            rk = None
        elif t == EV_FIRE_RETRY:
            tm = False
        elif t == EV_COMMIT_OK and co is not None:
            lc, co = co[0], None
        elif t == EV_COMMIT_FAIL:
            co = None
        for o in outs:
            tag = o[0]
            if tag in (OUT_OFFREQ, OUT_OFFFETCH, OUT_FETCH):
                if rk is not None:
                    return "step %d: a request is sent while request kind %d is outstanding" % (i, rk)
                rk = {OUT_OFFREQ: R_OFFREQ, OUT_OFFFETCH: R_OFFFETCH, OUT_FETCH: R_FETCH}[tag]
            elif tag == OUT_CANCEL_REQ:
                if o[1] == R_COMMIT:
                    co = None
                else:
                    rk = None
            elif tag == OUT_SCHED and o[1] == T_RETRY:
                if tm:
                    return "step %d: a second refetch timer is armed" % i
                tm = True
            elif tag == OUT_CANCEL_TIMER and o[1] == T_RETRY:
                tm = False
            elif tag == OUT_SCHED and o[1] == T_COMMIT:
                if ct or co is not None:
                    return "step %d: the commit-retry timer is armed while %s" % (i, "it is already armed" if ct else "a commit request is in flight")
                ct = True
            elif tag == OUT_CANCEL_TIMER and o[1] == T_COMMIT:
                ct = False
            elif tag == OUT_COMMIT:
                if co is not None:
                    return "step %d: a second commit request is sent while one is in flight" % i
                if ct:
                    return "step %d: a commit request is sent while the commit-retry timer is armed" % i
                co = (o[1],)
        if ends[i][1] != lc:
            return "step %d: last_committed_offset %r was never acknowledged / reported by the broker (expected %r)" % (i, ends[i][1], lc)
    return None


def mon_log(events, steps, entries, reset):
    """C02 delivered_is_log_segment + contiguity of fetch offsets, over the implementation's trace.
    entries: the simulated broker's log [(offset, key, value)] (ground truth).  reset: the configured auto_offset_reset
    (0 none / 1 earliest / 2 latest).  Epochs (start positions) begin at an accepted start(), at the resolution of
    an offset request / offset-fetch request and at an OffsetOutOfRange reset; messages extracted before a reset and
    still queued are delivered first (exp_old)."""
    offs_log = [o for (o, k, v) in entries]
    rk = None
    last = nextoff = st = None
    D, exp, exp_old = [], [], []
    for i, (ev, outs) in enumerate(zip(events, steps)):
        t = ev[0]
        accepted = not (outs and outs[0][0] == OUT_IGNORED)
        if t == EV_START and accepted and any(o[0] == OUT_RET for o in outs):
            st = nextoff = ev[1]
            D, exp, exp_old = [], [], []
            rk = None
        elif t == EV_REQ_OK and accepted and rk in (R_OFFREQ, R_OFFFETCH):
            if rk == R_OFFREQ:
                new = ev[1]
            elif ev[1] == -1:
                new = OFFSET_LATEST if reset == 2 else OFFSET_EARLIEST
            else:
                new = ev[1] + 1
            exp_old, exp, D = exp_old + exp, [], []
            st = nextoff = new
            rk = None
        elif t == EV_FETCH_OK and accepted and rk == R_FETCH:
            ms, f2 = extract(last, ev[1])
            exp = exp + ms
            nextoff = f2
            rk = None
        elif t == EV_REQ_FAIL and accepted and rk is not None:
            if rk == R_FETCH and ev[1] == FK_OOR and reset != 0:
                exp_old, exp, D = exp_old + exp, [], []
                st = nextoff = OFFSET_EARLIEST if reset == 1 else OFFSET_LATEST
            rk = None
        for o in outs:
            tag = o[0]
            if tag == OUT_FETCH:
                if o[1] != nextoff:
                    return "step %d: fetch request for offset %d, but the next unread offset is %r" % (i, o[1], nextoff)
                last, rk = o[1], R_FETCH
            elif tag == OUT_OFFREQ:
                rk = R_OFFREQ
            elif tag == OUT_OFFFETCH:
                rk = R_OFFFETCH
            elif tag == OUT_CANCEL_REQ and o[1] != R_COMMIT:
                rk = None
            elif tag == OUT_CALLPROC:
                blk = list(o[2:])
                if not blk:
                    return "step %d: processor called with no messages" % i
                if exp_old:
                    if exp_old[:len(blk)] != blk:
                        return "step %d: processor got %r, expected the queued %r first" % (i, blk, exp_old[:len(blk) + 1])
                    exp_old = exp_old[len(blk):]
                else:
                    if exp[:len(blk)] != blk:
                        return "step %d: processor got %r, next undelivered messages are %r" % (i, blk, exp[:len(blk) + 1])
                    exp = exp[len(blk):]
                    D = D + blk
                    want = [x for x in offs_log if st <= x][:len(D)]
                    if D != want:
                        return ("step %d: delivered since start position %d: %r; the log holds %r there (gap, repeat or "
                                "reordering)" % (i, st, D[-6:], want[-6:]))
    return None


def mon_start(events, steps):
    """an accepted start() sends its first request (fetch / offset / offset-fetch) before it returns: the consumer
    never sits idle after start (C02: from the resolved starting position every message is fetched)"""
    for i, (ev, outs) in enumerate(zip(events, steps)):
        if ev[0] == EV_START and any(o[0] == OUT_RET for o in outs):
            if not any(o[0] in (OUT_FETCH, OUT_OFFREQ, OUT_OFFFETCH) for o in outs):
                return "step %d: start(%d) returned without sending any request" % (i, ev[1])
    return None


def mon_never_idle(events, steps):
    """progress, one step at a time: at the end of every step an ALIVE consumer (start() accepted, its Deferred not
    fired, no stop() / shutdown() called since - by the application or from inside the processor) whose processor is
    not running (no invocation in progress, no result pending) has a request outstanding or a refetch timer armed:
    it never sits idle, so the next message in the log is eventually asked for."""
    rk, tm = None, False
    alive = False
    pw = ProcWindow()
    for i, (ev, outs) in enumerate(zip(events, steps)):
        t = ev[0]
        accepted = not (outs and outs[0][0] == OUT_IGNORED)
        if t == EV_START and accepted and any(o[0] == OUT_RET for o in outs):
            alive = True
            rk, tm = None, False
            pw.started()
        elif t in (EV_STOP, EV_SHUTDOWN):
            alive = False
        elif t in (EV_REQ_OK, EV_FETCH_OK, EV_REQ_FAIL) and accepted:
            rk = None
        elif t == EV_FIRE_RETRY and accepted:
            tm = False
        pw.event(ev, accepted)
        for o in outs:
            tag = o[0]
            if tag == OUT_CALLPROC and pw.plan and pw.plan[0][0] in (1, 3):
                alive = False                    # this invocation calls stop() / shutdown()
            pw.out(o)
            if tag in (OUT_OFFREQ, OUT_OFFFETCH, OUT_FETCH):
                rk = tag
            elif tag == OUT_CANCEL_REQ and o[1] != R_COMMIT:
                rk = None
            elif tag == OUT_SCHED and o[1] == T_RETRY:
                tm = True
            elif tag == OUT_CANCEL_TIMER and o[1] == T_RETRY:
                tm = False
            elif tag == OUT_START_D:
                alive = False
        if alive and pw.st is None and rk is None and not tm:
            return "step %d: the consumer is alive, its processor is not running, and it has neither a request outstanding nor a refetch timer armed" % i
    return None


def mon_giveup(events, steps, small, maxbuf):
    """the consumer gives up with ConsumerFetchSizeTooSmall (start Deferred fails, OUT_START_D false FK_TOOSMALL) only when
    the next message really does not fit max_buffer_size: otherwise that message and everything after it is never delivered.
    small: fetch offset -> size of the message the broker could only serve in part (recorded when it answered)"""
    last = None
    for i, (ev, outs) in enumerate(zip(events, steps)):
        for o in outs:
            if o[0] == OUT_FETCH:
                last = o[1]
            elif o[0] == OUT_START_D and o[1] == 0 and o[2] == CL.FK_TOOSMALL and last is not None:
                size = small.get(last)
                if size is not None and (maxbuf == -1 or size <= maxbuf):
                    return ("step %d: the consumer gave up with ConsumerFetchSizeTooSmall at offset %d although the message there (%d bytes) "
                            "fits max_buffer_size %s" % (i, last, size, "None" if maxbuf == -1 else maxbuf))
    return None


def mon_values(values_seen, entries):
    """every message handed to the processor carries the key, value and absolute offset the broker stores"""
    truth = dict((o, (k, v)) for (o, k, v) in entries)
    for (o, k, v) in values_seen:
        if o not in truth:
            return "delivered offset %d is not in the log" % o
        if truth[o] != (k, v):
            return "delivered message at offset %d has key/value %r, the log stores %r" % (o, (k, v), truth[o])
    return None


def mon_overlap(calls):
    for (step, offs, overlap) in calls:
        if overlap:
            return "step %d: processor invoked with %r while the result of its previous invocation is pending" % (step, offs)
    return None


class ProcWindow(object):
    """the processor-call window shared by C02_no_overlap and C03_commit_le_processed: reconstructs from the trace
    (plan oracle, OUT_CALLPROC / OUT_RET / OUT_RAISED / OUT_CANCEL_PROC, proc_fire events) which blocks completed
    successfully."""

    def __init__(self):
        self.plan = []
        self.st = None          # None idle | ("api", blk, r) | ("pending", blk)
        self.lp = NONE          # last offset of the most recent successfully completed invocation
        self.D, self.done = [], []      # delivered / successfully completed, since the last start position
        # Model/ConsumerLogC03.v, monitor PWB: an invocation was seen to fail since the last accepted start()
        self.bad = False
        # monitor C3: delivered / successfully completed since the last accepted start() (m_D, m_ok), ends of all
        # successfully completed blocks of the run (m_ends)
        self.D2, self.ok2, self.ends = [], [], []

    def finish(self, blk, r):
        if r == 0:
            self.lp = blk[-1]
            self.done = self.done + blk
            self.ok2 = self.ok2 + blk
            self.ends.append(blk[-1])
            self.st = None
        elif r in (2, 3):
            self.st = ("pending", blk)
        else:
            self.st = None
            self.bad = True

    def started(self):
        """an accepted start(): the failure bit is cleared, the C3 epoch begins"""
        self.bad = False
        self.D2, self.ok2 = [], []

    def event(self, ev, accepted):
        t = ev[0]
        if t == EV_PLAN:
            self.plan.append((ev[1], ev[2]))
        elif t == EV_PROC_FIRE and self.st and self.st[0] == "pending":
            blk = self.st[1]
            self.st = None
            if ev[1] == 1:
                self.lp = blk[-1]
                self.done = self.done + blk
                self.ok2 = self.ok2 + blk
                self.ends.append(blk[-1])
            else:
                self.bad = True

    def epoch(self):
        self.D, self.done = [], []

    def out(self, o):
        tag = o[0]
        if tag == OUT_CALLPROC:
            if self.st is not None:
                return "processor invoked while %s" % ("its previous invocation has not returned" if self.st[0] == "api"
                                                       else "the result of its previous invocation is pending")
            blk = list(o[2:])
            late = self.bad
            self.D = self.D + blk
            self.D2 = self.D2 + blk
            i, r = self.plan.pop(0) if self.plan else (0, 2)
            if i not in (1, 2, 3):            # it calls nothing back (1 stop(), 2 commit(), 3 shutdown())
                self.finish(blk, r)
            else:
                self.st = ("api", blk, r)
            if late:
                return "processor invoked with %r after an invocation failed (no accepted start() in between)" % (blk,)
        elif tag in (OUT_RET, OUT_RAISED) and self.st and self.st[0] == "api":
            _, blk, r = self.st
            self.finish(blk, r)
        elif tag == OUT_CANCEL_PROC:
            if not (self.st and self.st[0] == "pending"):
                return "a processor Deferred is cancelled but none is pending"
            self.st = None
            self.bad = True
        return None


def epoch_state(events, steps):
    """-> (delivered, successfully completed, offsets acknowledged by commit replies, offsets sent in commit requests)
    since the last change of start position (accepted start / offset request / offset-fetch request), from the trace alone"""
    pw = ProcWindow()
    acked, sent = [], None
    allsent = []
    for ev, outs in zip(events, steps):
        accepted = not (outs and outs[0][0] == OUT_IGNORED)
        if ev[0] == EV_START and accepted and any(o[0] == OUT_RET for o in outs):
            pw.epoch()
            pw.started()
            acked, allsent = [], []
        if ev[0] == EV_COMMIT_OK and accepted and sent is not None:
            acked.append(sent)
            sent = None
        elif ev[0] == EV_COMMIT_FAIL:
            sent = None
        pw.event(ev, accepted)
        for o in outs:
            if o[0] in (OUT_OFFREQ, OUT_OFFFETCH):
                pw.epoch()
                acked, allsent = [], []
            pw.out(o)
            if o[0] == OUT_COMMIT:
                sent = o[1]
                allsent.append(o[1])
            elif o[0] == OUT_CANCEL_REQ and o[1] == R_COMMIT:
                sent = None
    return pw.D, pw.done, acked, allsent


def mon_commit(events, steps, ends):
    """C03 commit_le_processed: every commit request carries the last offset of the most recent successfully completed
    processor invocation; if that invocation belongs to the current start position, every message delivered since then
    with an offset <= it has been completed; last_processed_offset (read at the end of every step) is that offset."""
    pw = ProcWindow()
    for i, (ev, outs) in enumerate(zip(events, steps)):
        accepted = not (outs and outs[0][0] == OUT_IGNORED)
        if ev[0] == EV_START and accepted and any(o[0] == OUT_RET for o in outs):
            pw.epoch()
            pw.started()
        pw.event(ev, accepted)
        for o in outs:
            if o[0] in (OUT_OFFREQ, OUT_OFFFETCH):
                pw.epoch()
            bad = pw.out(o)
            if bad:
                return "step %d: %s" % (i, bad)
            if o[0] == OUT_COMMIT:
                if o[1] != pw.lp:
                    return ("step %d: commit request for offset %r, but the last successfully processed offset is %r"
                            % (i, o[1], pw.lp))
                # monitor C3 (Model/ConsumerLogC03.v commit_ok): since the accepted start() the successfully processed
                # messages are a prefix of the delivered ones, and the commit carries the last of them
                if pw.D2[:len(pw.ok2)] != pw.ok2:
                    return ("step %d: commit request for offset %r while a delivered message before a processed one is unprocessed: "
                            "delivered %r..., processed %r..." % (i, o[1], pw.D2[:8], pw.ok2[:8]))
                if pw.ok2 and o[1] != pw.ok2[-1]:
                    return "step %d: commit request for offset %r, last message processed since start() is %r" % (i, o[1], pw.ok2[-1])
                if pw.done and pw.done[-1] == o[1]:
                    late = [x for x in pw.D if x <= o[1] and x not in pw.done]
                    if late:
                        return "step %d: offset %d committed, delivered messages %r not yet processed" % (i, o[1], late)
        if ends[i][0] != pw.lp:
            return "step %d: last_processed_offset is %r, last successfully completed block ends at %r" % (i, ends[i][0], pw.lp)
    return None
