# C04 - every request on the wire conforms to the Kafka grammar; version negotiation.
#
#   arguments --REAL KafkaCodec.encode_* (afkak from /repo)--> bytes ----+--> harness/kafkaspec_req.py (independent
#       |                                                        |       |    Python grammar parser)  -> fields
#       | same arguments as a case line                          |       +--> Coq grammar parser (Model.KafkaSpecReq,
#       v                                                        |            runner op 50)           -> fields
#   extracted Coq encoder (Model.Requests, ops 1..14)  == bytes -+   the two parsers must agree field for field;
#                                                                    monitor: the fields are the arguments supplied
#   (canon = grouping by topic/partition, computed here independently), CRCs valid, null vs empty kept.
#
#   version negotiation: the REAL KafkaClient.get_api_version / fetch_api_versions / send_produce_request /
#   send_fetch_request (network layer replaced by scripted Deferreds) against Model.ClientVersion (ops 60, 61):
#   argument handed to encoder and decoder, header version actually written, response layout actually decoded,
#   message format the REAL Producer builds.  End-to-end frames (Producer -> KafkaClient -> bytes handed to the
#   broker client) are parsed by both grammar parsers and must satisfy `format_matches_version`.
import os
import random
import struct

import vlib
from vlib import lp

import kafkaspec_req as KS
from props import codec_lib as CL

MODEL = "req"
MODULE = "Model.ReqRun"

I16 = (-2 ** 15, 2 ** 15 - 1)
I32 = (-2 ** 31, 2 ** 31 - 1)
I64 = (-2 ** 63, 2 ** 63 - 1)

ASCII_NAMES = ["t", "topic-1", "a.b_c-d", "", "T" * 40, "\x00", "\x7f", "__consumer_offsets", "grp", "member-1"]
UNI_NAMES = ["café", "日本語", "\U0001F600g", "\x7f\u0080", "߿ࠀ￿", "\U00010000\U0010ffff"]


def cps(s):
    """TXT: a Python str (or None) as OLP(code points)"""
    return [-1] if s is None else lp([ord(ch) for ch in s])


def olp(b):
    return [-1] if b is None else lp(b)


class Gen:
    def __init__(self, rnd):
        self.rnd = rnd

    def rng(self, bounds, small=1000, oob=0.02):
        lo, hi = bounds
        r = self.rnd.random()
        if r < oob:
            return self.rnd.choice([lo - 1, hi + 1, hi + 2 ** 40, lo - 2 ** 40])
        if r < 0.3:
            return self.rnd.choice([lo, lo + 1, -1, 0, 1, hi - 1, hi])
        if r < 0.75:
            return self.rnd.randint(0, small)
        return self.rnd.randint(lo, hi)

    def i16(self, **kw):
        return self.rng(I16, 30, **kw)

    def i32(self, **kw):
        return self.rng(I32, **kw)

    def i64(self, **kw):
        return self.rng(I64, 10 ** 6, **kw)

    def cid(self):
        r = self.rnd.random()
        if r < 0.4:
            return b"afkak-client"
        if r < 0.5:
            return b""
        if r < 0.52:
            return bytes(self.rnd.choice([32767, 32768]))
        return CL.rbytes(self.rnd, self.rnd.randint(1, 24))

    def corr(self):
        return self.rng(I32, 2 ** 20, oob=0.01)

    def name(self, ascii_only, null=0.03):
        """a str for a STRING field; ascii_only fields raise UnicodeEncodeError on anything else"""
        r = self.rnd.random()
        if r < null:
            return None
        if r < 0.55:
            return self.rnd.choice(ASCII_NAMES)
        if r < 0.65:
            return self.rnd.choice(UNI_NAMES)
        if r < 0.67:
            return "x" * self.rnd.choice([32767, 32768])
        if r < 0.69:
            return "é" * self.rnd.choice([16383, 16384])
        if r < 0.72:
            return self.rnd.choice(["\ud800", "a\udfffb"])       # lone surrogates: str.encode raises
        n = self.rnd.randint(1, 12)
        if ascii_only or self.rnd.random() < 0.5:
            return "".join(self.rnd.choice("abcdefghijklmnopqrstuvwxyzABCXYZ0123456789._-") for _ in range(n))
        return "".join(chr(self.rnd.choice([self.rnd.randint(0x20, 0x7E), self.rnd.randint(0x80, 0x7FF),
                                            self.rnd.randint(0x800, 0xD7FF), self.rnd.randint(0x10000, 0x10FFFF)]))
                       for _ in range(n))

    def topics(self):
        """a small pool so that payload lists repeat topics and (topic, partition) pairs"""
        return [self.name(True, null=0.02) for _ in range(self.rnd.randint(1, 3))]

    def ob(self, maxlen=14, null=0.2):
        r = self.rnd.random()
        if r < null:
            return None
        if r < null + 0.15:
            return b""
        if r < null + 0.17:
            return bytes(self.rnd.choice([32767, 32768]))
        return CL.rbytes(self.rnd, self.rnd.randint(1, maxlen))

    def npayloads(self):
        return self.rnd.choice([0, 1, 1, 2, 3, 4, 6])

    def part(self):
        return self.rnd.choice([0, 0, 1, 2, 5, self.i32()])


# ------------------------------------------------------------------ independent canon (grouping) and expectations
def canon_group(payloads):
    """topics in order of first occurrence, partitions in order of first occurrence, last payload wins"""
    out = {}
    for p in payloads:
        out.setdefault(p.topic, {})[p.partition] = p
    return [(t, list(d.items())) for t, d in out.items()]


def enc_text(s, ascii_only):
    return s.encode("ascii" if ascii_only else "utf-8")


def hdr_expect(key, version, corr, cid, body):
    return {"key": key, "version": version, "correlation": corr, "client": bytes(cid), "body": body}


def all_present(*xs):
    return all(x is not None for x in xs)


# ------------------------------------------------------------------ one entry per API: gen / call / case / expect
def codec():
    from afkak.kafkacodec import KafkaCodec
    return KafkaCodec


class Api:
    """gen(g) -> args dict;  call(a) -> bytes (may raise);  case(a) -> model case line;
    expect(a) -> expected parse (dict) or None when the arguments are outside the theorem's hypotheses"""
    name = ""

    def run_impl(self, a):
        with CL.Recorder(a.get("clock", (0, 0))[0], a.get("clock", (0, 0))[1]):
            return CL.trace_bytes(lambda: self.call(a))


class ApiVersionsApi(Api):
    name = "api_versions"

    def gen(self, g):
        kv = (18, 0) if g.rnd.random() < 0.7 else (g.i16(oob=0.05), g.i16(oob=0.05))
        return {"cid": g.cid(), "corr": g.corr(), "key": kv[0], "ver": kv[1]}

    def call(self, a):
        from afkak.common import ApiVersionRequest
        return codec().encode_api_versions_request(a["cid"], a["corr"], ApiVersionRequest(a["key"], a["ver"]))

    def case(self, a):
        return [1] + lp(a["cid"]) + [a["corr"], a["key"], a["ver"]]

    def expect(self, a):
        if (a["key"], a["ver"]) != (18, 0):
            return None
        return hdr_expect(18, 0, a["corr"], a["cid"], {"api": "ApiVersions"})


def pm(offset, magic, attr, ts, key, value):
    return {"offset": offset, "magic": magic, "attr": attr, "ts": ts, "key": key, "value": value}


class ProduceApi(Api):
    name = "produce"
    wrapper_expect = {}          # id(wrapper Message) -> (magic, attributes, timestamp); the Message is kept alive by the args

    def gen_messages(self, g):
        """list of (Message, expected-inner or None); built under a Recorder so timestamps are scripted"""
        from afkak.common import SendRequest
        from afkak.kafkacodec import create_message_set
        rnd = g.rnd
        r = rnd.random()
        out = []
        if r < 0.45:        # what the Producer builds: create_message_set, codec none or gzip, format 0 or 1
            magic = rnd.choice([0, 1])
            cdc = rnd.choice([0, 0, 1, 1])
            reqs = [(g.ob(6), [g.ob(10, null=0.1) for _ in range(rnd.randint(1, 3))]) for _ in range(rnd.randint(1, 3))]
            base = rnd.choice([1600000000000, 1234567890123, 0, 5])
            with CL.Recorder(base, 1):
                ms = create_message_set([SendRequest("t", k, list(ps), None) for k, ps in reqs], cdc, magic)
            flat = [(k, p) for k, ps in reqs for p in ps]
            inner = [pm(0, magic, 0, (base + i) if magic == 1 else None, k, p) for i, (k, p) in enumerate(flat)]
            if cdc == 0:
                out = [(m, None) for m in ms]
            else:
                # independent expectation for the wrapper too: attributes = the codec, key null, format = magic,
                # timestamp = the clock reading after the inner ones; only its compressed value is taken as found
                self.wrapper_expect[id(ms[0])] = (magic, cdc, (base + len(flat)) if magic == 1 else None)
                out = [(ms[0], inner)]
            self.last_kind = "created_codec%d_magic%d" % (cdc, magic)
        else:               # hand-made Message objects, as a direct user of send_produce_request may pass
            n = rnd.choice([0, 1, 1, 2, 3, 5])
            for _ in range(n):
                magic = rnd.choice([0, 0, 1, 1, 1, 2] if rnd.random() < 0.08 else [0, 1])
                attr = rnd.choice([0, 0, 0, 8, 0xF0, 0xF8, 256 if rnd.random() < 0.1 else 0, 3 if rnd.random() < 0.1 else 0])
                ts = rnd.choice([None, None, 0, -1, 1500000000123, I64[1], I64[0], I64[1] + 1 if rnd.random() < 0.1 else 7])
                out.append((CL.mk_msg(magic, attr, g.ob(), g.ob(30), ts if magic == 1 else rnd.choice([None, None, 9])), None))
            self.last_kind = "handmade"
        return out

    def gen(self, g):
        from afkak.common import ProduceRequest
        topics = g.topics()
        payloads, inner_of = [], {}
        kinds = []
        for _ in range(g.npayloads()):
            mi = self.gen_messages(g)
            kinds.append(self.last_kind)
            msgs = [m for m, _ in mi]
            for m, inner in mi:
                if inner is not None:
                    inner_of[id(m)] = inner
            payloads.append(ProduceRequest(g.rnd.choice(topics), g.part(), msgs))
        return {"cid": g.cid(), "corr": g.corr(), "payloads": payloads, "acks": g.rnd.choice([0, 1, -1, g.i16()]),
                "timeout": g.rnd.choice([1000, g.i32()]), "ver": g.rnd.choice([0, 0, 1, 2, 2, 3, 7, -1]),
                "clock": g.rnd.choice([(1600000000000, 1), (77, 1000), (0, 0)]), "inner_of": inner_of, "kinds": kinds,
                "keep": payloads}

    def call(self, a):
        return codec().encode_produce_request(a["cid"], a["corr"], a["payloads"], a["acks"], a["timeout"], a["ver"])

    def case(self, a):
        c = [2, a["clock"][0], a["clock"][1]] + lp(a["cid"]) + [a["corr"], a["acks"], a["timeout"], a["ver"], len(a["payloads"])]
        for p in a["payloads"]:
            c += cps(p.topic) + [p.partition, len(p.messages)]
            for m in p.messages:
                c += CL.msg_ints(m)
        return c

    def expect(self, a):
        if a["ver"] < 0 or not all_present(*[p.topic for p in a["payloads"]]):
            return None
        base, step = a["clock"]
        k = 0
        topics = []
        for t, parts in canon_group(a["payloads"]):
            eparts = []
            for partition, p in parts:
                ms = []
                for m in p.messages:
                    ts = m.timestamp
                    if m.magic == 1 and ts is None:
                        ts = base + step * k
                        k += 1
                    top = pm(0, m.magic, m.attributes, ts if m.magic == 1 else None, m.key, m.value)
                    if id(m) in a["inner_of"]:
                        wm, wa, wt = self.wrapper_expect[id(m)]
                        ms.append({"wrapper": True, "msg": pm(0, wm, wa, wt, None, m.value), "inner": a["inner_of"][id(m)]})
                    elif m.attributes & 7:
                        return None            # hand-made "compressed" message with arbitrary bytes: outside wf
                    else:
                        ms.append({"wrapper": False, "msg": top})
                eparts.append((partition, ms))
            topics.append((enc_text(t, True), eparts))
        return hdr_expect(0, min(a["ver"], 2), a["corr"], a["cid"],
                          {"api": "Produce", "acks": a["acks"], "timeout": a["timeout"], "topics": topics})


class FetchApi(Api):
    name = "fetch"

    def gen(self, g):
        from afkak.common import FetchRequest
        topics = g.topics()
        ps = [FetchRequest(g.rnd.choice(topics), g.part(), g.i64(), g.i32()) for _ in range(g.npayloads())]
        return {"cid": g.cid(), "corr": g.corr(), "payloads": ps, "wait": g.rnd.choice([100, g.i32()]),
                "minb": g.rnd.choice([4096, g.i32()]), "ver": g.rnd.choice([0, 0, 1, 2, 2, 3, 11, -1])}

    def call(self, a):
        return codec().encode_fetch_request(a["cid"], a["corr"], a["payloads"], a["wait"], a["minb"], a["ver"])

    def case(self, a):
        c = [3] + lp(a["cid"]) + [a["corr"], a["wait"], a["minb"], a["ver"], len(a["payloads"])]
        for p in a["payloads"]:
            c += cps(p.topic) + [p.partition, p.offset, p.max_bytes]
        return c

    def expect(self, a):
        if a["ver"] < 0 or not all_present(*[p.topic for p in a["payloads"]]):
            return None
        topics = [(enc_text(t, True), [(pt, p.offset, p.max_bytes) for pt, p in parts]) for t, parts in canon_group(a["payloads"])]
        return hdr_expect(1, min(a["ver"], 2), a["corr"], a["cid"],
                          {"api": "Fetch", "replica": -1, "max_wait": a["wait"], "min_bytes": a["minb"], "topics": topics})


class OffsetApi(Api):
    name = "list_offsets"

    def gen(self, g):
        from afkak.common import OffsetRequest
        topics = g.topics()
        ps = [OffsetRequest(g.rnd.choice(topics), g.part(), g.rnd.choice([-1, -2, g.i64()]), g.rnd.choice([1, g.i32()]))
              for _ in range(g.npayloads())]
        return {"cid": g.cid(), "corr": g.corr(), "payloads": ps}

    def call(self, a):
        return codec().encode_offset_request(a["cid"], a["corr"], a["payloads"])

    def case(self, a):
        c = [4] + lp(a["cid"]) + [a["corr"], len(a["payloads"])]
        for p in a["payloads"]:
            c += cps(p.topic) + [p.partition, p.time, p.max_offsets]
        return c

    def expect(self, a):
        if not all_present(*[p.topic for p in a["payloads"]]):
            return None
        topics = [(enc_text(t, True), [(pt, p.time, p.max_offsets) for pt, p in parts]) for t, parts in canon_group(a["payloads"])]
        return hdr_expect(2, 0, a["corr"], a["cid"], {"api": "ListOffsets", "replica": -1, "topics": topics})


class MetadataApi(Api):
    name = "metadata"

    def gen(self, g):
        return {"cid": g.cid(), "corr": g.corr(), "topics": [g.name(True) for _ in range(g.rnd.choice([0, 0, 1, 2, 3, 8]))]}

    def call(self, a):
        return codec().encode_metadata_request(a["cid"], a["corr"], a["topics"])

    def case(self, a):
        c = [5] + lp(a["cid"]) + [a["corr"], len(a["topics"])]
        for t in a["topics"]:
            c += cps(t)
        return c

    def expect(self, a):
        if not all_present(*a["topics"]):
            return None
        return hdr_expect(3, 0, a["corr"], a["cid"], {"api": "Metadata", "topics": [enc_text(t, True) for t in a["topics"]]})


class FindCoordinatorApi(Api):
    name = "find_coordinator"

    def gen(self, g):
        return {"cid": g.cid(), "corr": g.corr(), "group": g.name(True)}

    def call(self, a):
        return codec().encode_consumermetadata_request(a["cid"], a["corr"], a["group"])

    def case(self, a):
        return [6] + lp(a["cid"]) + [a["corr"]] + cps(a["group"])

    def expect(self, a):
        if a["group"] is None:
            return None
        return hdr_expect(10, 0, a["corr"], a["cid"], {"api": "FindCoordinator", "group": enc_text(a["group"], True)})


class OffsetCommitApi(Api):
    name = "offset_commit"

    def gen(self, g):
        from afkak.common import OffsetCommitRequest
        topics = g.topics()
        ps = [OffsetCommitRequest(g.rnd.choice(topics), g.part(), g.i64(), g.rnd.choice([-1, g.i64()]), g.ob(12))
              for _ in range(g.npayloads())]
        return {"cid": g.cid(), "corr": g.corr(), "group": g.name(True), "gen": g.rnd.choice([-1, 0, 1, g.i32()]),
                "consumer": g.name(True, null=0), "payloads": ps}

    def call(self, a):
        return codec().encode_offset_commit_request(a["cid"], a["corr"], a["group"], a["gen"], a["consumer"], a["payloads"])

    def case(self, a):
        c = [7] + lp(a["cid"]) + [a["corr"]] + cps(a["group"]) + [a["gen"]] + cps(a["consumer"]) + [len(a["payloads"])]
        for p in a["payloads"]:
            c += cps(p.topic) + [p.partition, p.offset, p.timestamp] + olp(p.metadata)
        return c

    def expect(self, a):
        if not all_present(a["group"], a["consumer"], *[p.topic for p in a["payloads"]]):
            return None
        topics = [(enc_text(t, True), [(pt, p.offset, p.timestamp, p.metadata) for pt, p in parts])
                  for t, parts in canon_group(a["payloads"])]
        return hdr_expect(8, 1, a["corr"], a["cid"],
                          {"api": "OffsetCommit", "group": enc_text(a["group"], True), "generation": a["gen"],
                           "member": enc_text(a["consumer"], True), "topics": topics})


class OffsetFetchApi(Api):
    name = "offset_fetch"

    def gen(self, g):
        from afkak.common import OffsetFetchRequest
        topics = g.topics()
        ps = [OffsetFetchRequest(g.rnd.choice(topics), g.part()) for _ in range(g.npayloads())]
        return {"cid": g.cid(), "corr": g.corr(), "group": g.name(True), "payloads": ps}

    def call(self, a):
        return codec().encode_offset_fetch_request(a["cid"], a["corr"], a["group"], a["payloads"])

    def case(self, a):
        c = [8] + lp(a["cid"]) + [a["corr"]] + cps(a["group"]) + [len(a["payloads"])]
        for p in a["payloads"]:
            c += cps(p.topic) + [p.partition]
        return c

    def expect(self, a):
        if not all_present(a["group"], *[p.topic for p in a["payloads"]]):
            return None
        topics = [(enc_text(t, True), [pt for pt, _ in parts]) for t, parts in canon_group(a["payloads"])]
        return hdr_expect(9, 1, a["corr"], a["cid"], {"api": "OffsetFetch", "group": enc_text(a["group"], True), "topics": topics})


class JoinGroupApi(Api):
    name = "join_group"

    def gen(self, g):
        protos = [(g.name(True, null=0.02), g.ob(20, null=0.04)) for _ in range(g.rnd.choice([0, 1, 1, 2, 3]))]
        return {"cid": g.cid(), "corr": g.corr(), "group": g.name(False), "session": g.rnd.choice([30000, g.i32()]),
                "member": g.name(False), "ptype": g.name(False), "protos": protos}

    def call(self, a):
        from afkak.common import _JoinGroupRequest, _JoinGroupRequestProtocol
        return codec().encode_join_group_request(a["cid"], a["corr"], _JoinGroupRequest(
            a["group"], a["session"], a["member"], a["ptype"], [_JoinGroupRequestProtocol(n, m) for n, m in a["protos"]]))

    def case(self, a):
        c = [9] + lp(a["cid"]) + [a["corr"]] + cps(a["group"]) + [a["session"]] + cps(a["member"]) + cps(a["ptype"]) + [len(a["protos"])]
        for n, m in a["protos"]:
            c += cps(n) + olp(m)
        return c

    def expect(self, a):
        if not all_present(a["group"], a["member"], a["ptype"], *[x for nm in a["protos"] for x in nm]):
            return None
        return hdr_expect(11, 0, a["corr"], a["cid"],
                          {"api": "JoinGroup", "group": enc_text(a["group"], False), "session_timeout": a["session"],
                           "member": enc_text(a["member"], False), "protocol_type": enc_text(a["ptype"], False),
                           "protocols": [(enc_text(n, True), m) for n, m in a["protos"]]})


class LeaveGroupApi(Api):
    name = "leave_group"

    def gen(self, g):
        return {"cid": g.cid(), "corr": g.corr(), "group": g.name(False), "member": g.name(False)}

    def call(self, a):
        from afkak.common import _LeaveGroupRequest
        return codec().encode_leave_group_request(a["cid"], a["corr"], _LeaveGroupRequest(a["group"], a["member"]))

    def case(self, a):
        return [10] + lp(a["cid"]) + [a["corr"]] + cps(a["group"]) + cps(a["member"])

    def expect(self, a):
        if not all_present(a["group"], a["member"]):
            return None
        return hdr_expect(13, 0, a["corr"], a["cid"], {"api": "LeaveGroup", "group": enc_text(a["group"], False),
                                                       "member": enc_text(a["member"], False)})


class HeartbeatApi(Api):
    name = "heartbeat"

    def gen(self, g):
        return {"cid": g.cid(), "corr": g.corr(), "group": g.name(False), "gen": g.rnd.choice([0, 1, g.i32()]), "member": g.name(False)}

    def call(self, a):
        from afkak.common import _HeartbeatRequest
        return codec().encode_heartbeat_request(a["cid"], a["corr"], _HeartbeatRequest(a["group"], a["gen"], a["member"]))

    def case(self, a):
        return [11] + lp(a["cid"]) + [a["corr"]] + cps(a["group"]) + [a["gen"]] + cps(a["member"])

    def expect(self, a):
        if not all_present(a["group"], a["member"]):
            return None
        return hdr_expect(12, 0, a["corr"], a["cid"], {"api": "Heartbeat", "group": enc_text(a["group"], False),
                                                       "generation": a["gen"], "member": enc_text(a["member"], False)})


class SyncGroupApi(Api):
    name = "sync_group"

    def gen(self, g):
        asg = [(g.name(False, null=0.02), g.ob(20, null=0.04)) for _ in range(g.rnd.choice([0, 0, 1, 2, 4]))]
        return {"cid": g.cid(), "corr": g.corr(), "group": g.name(False), "gen": g.rnd.choice([0, 1, g.i32()]),
                "member": g.name(False), "asg": asg}

    def call(self, a):
        from afkak.common import _SyncGroupRequest, _SyncGroupRequestMember
        return codec().encode_sync_group_request(a["cid"], a["corr"], _SyncGroupRequest(
            a["group"], a["gen"], a["member"], [_SyncGroupRequestMember(n, m) for n, m in a["asg"]]))

    def case(self, a):
        c = [12] + lp(a["cid"]) + [a["corr"]] + cps(a["group"]) + [a["gen"]] + cps(a["member"]) + [len(a["asg"])]
        for n, m in a["asg"]:
            c += cps(n) + olp(m)
        return c

    def expect(self, a):
        if not all_present(a["group"], a["member"], *[x for nm in a["asg"] for x in nm]):
            return None
        return hdr_expect(14, 0, a["corr"], a["cid"],
                          {"api": "SyncGroup", "group": enc_text(a["group"], False), "generation": a["gen"],
                           "member": enc_text(a["member"], False),
                           "assignments": [(enc_text(n, False), m) for n, m in a["asg"]]})


APIS = [ApiVersionsApi(), ProduceApi(), FetchApi(), OffsetApi(), MetadataApi(), FindCoordinatorApi(), OffsetCommitApi(),
        OffsetFetchApi(), JoinGroupApi(), LeaveGroupApi(), HeartbeatApi(), SyncGroupApi()]
THEOREM_OF = {"api_versions": "C04_api_versions", "produce": "C04_produce", "fetch": "C04_fetch",
              "list_offsets": "C04_list_offsets", "metadata": "C04_metadata", "find_coordinator": "C04_find_coordinator",
              "offset_commit": "C04_offset_commit", "offset_fetch": "C04_offset_fetch", "join_group": "C04_join_group",
              "leave_group": "C04_leave_group", "heartbeat": "C04_heartbeat", "sync_group": "C04_sync_group"}


# ------------------------------------------------------------------ embedded consumer-protocol structures
def gen_subscription(g):
    return {"version": g.i16(), "subs": [g.name(False, null=0.02) for _ in range(g.rnd.choice([0, 1, 2, 4]))], "ud": g.ob(10)}


def gen_assignment(g):
    asg = {}
    for _ in range(g.rnd.choice([0, 1, 2, 3])):
        asg[g.name(True, null=0)] = [g.rnd.choice([0, 1, 2, g.i32()]) for _ in range(g.rnd.choice([0, 1, 3]))]
    return {"version": g.i16(), "asg": asg, "ud": g.ob(10)}


# ------------------------------------------------------------------ spec parsing of emitted bytes
def oracle_from(dec):
    """ORACLE case-line part from the calls the Python grammar parser made to its decompressors"""
    seen, out = set(), []
    for kind, i, ok, o in dec.calls:
        if (kind, i) in seen:
            continue
        seen.add((kind, i))
        out += [kind] + lp(i) + [0 if ok else CL.E_CODEC] + lp(o)
    return [0, len(seen)] + out


def spec_parse(data):
    """(parsed dict or None, flattened trace, case line for the Coq parser)"""
    dec = KS.Decompressors()
    req = KS.parse_request(data, dec)
    return req, KS.flatten(req), [50] + oracle_from(dec) + lp(data)


def describe(c):
    return {"op": c[0], "line": c[:60]}


# ------------------------------------------------------------------ version negotiation against the real client
def api_versions_response(corr, code, table):
    return struct.pack(">ihi", corr, code, len(table)) + b"".join(struct.pack(">hhh", *e) for e in table)


def produce_response_bytes(layout):
    """two partitions so that decoding with the other layout cannot give the right answer"""
    parts = [(0, 0, 100), (1, 3, 200)]
    out = struct.pack(">ii", 9, 1) + struct.pack(">h", 1) + b"t" + struct.pack(">i", len(parts))
    for p, e, o in parts:
        out += struct.pack(">ihq", p, e, o) + (struct.pack(">q", -1) if layout == 2 else b"")
    return out + (struct.pack(">i", 0) if layout == 2 else b""), [("t", p, e, o) for p, e, o in parts]


def fetch_response_bytes(layout):
    parts = [(0, 0, 50), (1, 1, 60)]
    out = struct.pack(">i", 9) + (struct.pack(">i", 0) if layout == 2 else b"") + struct.pack(">i", 1) + struct.pack(">h", 1) + b"t"
    out += struct.pack(">i", len(parts))
    for p, e, h in parts:
        out += struct.pack(">ihq", p, e, h) + struct.pack(">i", 0)
    return out, [("t", p, e, h) for p, e, h in parts]


def observed_layout(decoder, mk):
    """which response layout does this decoder read correctly: 0, 2 or -1 (neither)"""
    got = []
    for layout in (0, 2):
        data, want = mk(layout)
        try:
            res = [(r.topic, r.partition, r.error, r[3]) for r in decoder(data)]
        except Exception:  # noqa
            continue
        if res == want:
            got.append(layout)
    return got[0] if len(got) == 1 else -1


_WATCHED = {}


def watched_client_class():
    """KafkaClient with a recording property in place of the attribute `_api_versions`: every WRITE is logged, so a
    writer the model does not know (reset, close, a retry path ...) cannot go unnoticed"""
    from afkak.client import KafkaClient
    if KafkaClient not in _WATCHED:
        class WatchedClient(KafkaClient):
            @property
            def _api_versions(self):
                return self.__dict__.get("_c04_cell")

            @_api_versions.setter
            def _api_versions(self, v):
                self.__dict__.setdefault("_c04_writes", []).append(v)
                self.__dict__["_c04_cell"] = v
        _WATCHED[KafkaClient] = WatchedClient
    return _WATCHED[KafkaClient]


def cell_rewritten(client):
    """None, or (resolved value, later value): the version state was written again after it had been resolved"""
    resolved = None
    for v in client.__dict__.get("_c04_writes", []):
        if resolved is not None and v != resolved[0]:
            return (repr(resolved[0])[:200], repr(v)[:200])
        if v is not None and resolved is None:
            resolved = (v,)
    return None


class ScriptedClient:
    """the REAL KafkaClient with the two network-facing methods replaced by scripted Deferreds"""

    def __init__(self, discovery, client_id="afkak-client"):
        from twisted.internet import defer, task
        self.defer = defer
        self.clock = task.Clock()
        self.client = watched_client_class()("h:9092", clientId=client_id, reactor=self.clock,
                                             enable_protocol_version_discovery=discovery)
        self.unaware = []          # [requestId, request bytes, Deferred]
        self.aware = []            # (payloads, encoder, decoder)
        self.client._send_broker_unaware_request = self._unaware
        self.client._send_broker_aware_request = self._aware

    def _unaware(self, requestId, request):
        d = self.defer.Deferred()
        self.unaware.append([requestId, bytes(request), d])
        return d

    def _aware(self, payloads, encoder, decoder, **kw):
        self.aware.append((payloads, encoder, decoder))
        return self.defer.Deferred()

    def deliver(self, entry, outcome):
        """outcome = (0, code, table) | (1,) | (2,)"""
        from afkak.common import KafkaUnavailableError
        rid, _req, d = entry
        if outcome[0] == 0:
            d.callback(api_versions_response(rid, outcome[1], outcome[2]))
        elif outcome[0] == 1:
            d.errback(KafkaUnavailableError("scripted"))
        else:
            d.errback(RuntimeError("scripted failure"))


def watch(d):
    """attach once; holder[0] = (1, result) | (2, failure) once the Deferred has fired"""
    holder = []

    def ok(r):
        holder.append((1, r))
        return r

    def err(f):
        holder.append((2, f))
        return None          # consumed: nothing is left to be logged as unhandled
    d.addCallbacks(ok, err)
    return holder


def fired(d):
    """(state, value) of a Deferred nobody else looks at: state 0 pending, 1 result, 2 failure"""
    h = watch(d)
    return h[0] if h else (0, None)


def outcome_ints(o):
    if o[0] == 0:
        return [0, o[1], len(o[2])] + [x for e in o[2] for x in e]
    return [o[0]]


def gen_table(rnd, ok=True):
    """an advertised table: every key once, in random order; ok -> Produce/Fetch with min 0 max >= 2"""
    keys = [0, 1, 2, 3, 8, 9, 10, 11, 12, 13, 14, 18] + rnd.sample(range(19, 60), rnd.randint(0, 6))
    rnd.shuffle(keys)
    if rnd.random() < 0.2:
        keys = sorted(keys)
    t = []
    for k in keys:
        mx = rnd.choice([0, 1, 2, 3, 5, 11])
        if k in (0, 1):
            if ok:
                mx = rnd.choice([2, 2, 3, 5, 7, 8, 11, 32767])
                t.append((k, 0, mx))
                continue
            if rnd.random() < 0.3:
                continue          # key missing from the table
        t.append((k, rnd.choice([0, 0, 1]) if mx else 0, mx))
    return t


def gen_outcomes(rnd, ok_tables=True):
    outs = []
    for _ in range(rnd.choice([0, 1, 1, 2, 3, 4])):
        r = rnd.random()
        if r < 0.45:
            outs.append((1,))
        elif r < 0.5:
            outs.append((2,))
        elif r < 0.6:
            outs.append((0, rnd.choice([35, -1, 1, 17]), gen_table(rnd, ok_tables) if rnd.random() < 0.5 else []))
        else:
            outs.append((0, 0, gen_table(rnd, ok_tables)))
    return outs


def give_topic(client, topic, partitions=(0, 1)):
    from afkak.common import BrokerMetadata, TopicAndPartition
    client.topic_partitions[topic] = list(partitions)
    client.topic_errors[topic] = 0
    for p in partitions:
        client.topics_to_brokers[TopicAndPartition(topic, p)] = BrokerMetadata(1, "h", 9092)


def impl_negotiate(discovery, outs):
    """the trace of op 60 observed on the real client driven by the real Producer, plus the parsed frames"""
    from afkak.common import FetchRequest
    from afkak.kafkacodec import KafkaCodec
    from afkak.producer import Producer
    sc = ScriptedClient(discovery)
    give_topic(sc.client, "t")
    prod = Producer(sc.client)
    sent = watch(prod.send_messages("t", key=b"k", msgs=[b"v1", b"v2"]))
    for o in outs:
        pending = [e for e in sc.unaware if not e[2].called]
        if not pending:
            break
        sc.deliver(pending[0], o)
    if sent and sent[0][0] == 2:
        return [3], None
    if not sc.aware:
        return [2], None
    st, pa = fired(sc.client.get_api_version(KafkaCodec.PRODUCE_KEY))
    st2, fa = fired(sc.client.get_api_version(KafkaCodec.FETCH_KEY))
    if st != 1 or st2 != 1:
        return [-5], None
    sc.client.send_fetch_request([FetchRequest("t", 0, 5, 1000)], max_wait_time=100)
    if len(sc.aware) != 2:
        return [-6], None
    (pp, penc, pdec), (fp, fenc, fdec) = sc.aware
    pbytes = penc(client_id=b"c", correlation_id=1, payloads=pp)
    fbytes = fenc(client_id=b"c", correlation_id=2, payloads=fp)
    preq, freq = KS.parse_request(pbytes), KS.parse_request(fbytes)
    if preq is None or freq is None:
        return [-7], (pbytes, fbytes)
    pd = observed_layout(pdec, produce_response_bytes)
    fd = observed_layout(fdec, fetch_response_bytes)
    mg = set(KS.magics(preq))
    return [1, pa, preq["version"], pd, fa, freq["version"], fd, mg.pop() if len(mg) == 1 else -9], (preq, freq)


def gen_events(rnd):
    """overlapping get_api_version calls and metadata resets:
    list of ('call', id, key) / ('reply', id, outcome) / ('reset', which)"""
    evs, open_ids, nid = [], [], 0
    for _ in range(rnd.randint(1, 10)):
        r0 = rnd.random()
        if r0 < 0.12:
            evs.append(("reset", rnd.choice([0, 0, 1, 2])))
        elif not open_ids or r0 < 0.45:
            evs.append(("call", nid, rnd.choice([0, 1, 0, 1, 3, 18])))
            open_ids.append(nid)
            nid += 1
        else:
            i = rnd.choice(open_ids)
            r = rnd.random()
            o = (1,) if r < 0.5 else (2,) if r < 0.56 else (0, rnd.choice([35, 0, 0, 0]), gen_table(rnd, True))
            evs.append(("reply", i, o))
    return evs


def impl_events(discovery, evs):
    from afkak.kafkacodec import KafkaCodec
    sc = ScriptedClient(discovery)
    calls = {}       # id -> [holder, requestId or None]
    obs = []
    cells = []

    def cell():
        v = sc.client._api_versions
        if v is None:
            c = [0]
        elif not isinstance(v, list) and v == 0:
            c = [1]
        else:
            _, p = fired(sc.client.get_api_version(KafkaCodec.PRODUCE_KEY))
            _, f = fired(sc.client.get_api_version(KafkaCodec.FETCH_KEY))
            c = [2, p, f]
        cells.append(tuple(c))
        return c

    def result(h):
        return [] if not h else [h[0][1]] if h[0][0] == 1 else [-2]

    for ev in evs:
        if ev[0] == "reset":
            if ev[1] == 0:
                sc.client.reset_all_metadata()
            elif ev[1] == 1:
                sc.client.reset_topic_metadata("t")
            else:
                sc.client.reset_consumer_group_metadata("g")
            obs += cell()
        elif ev[0] == "call":
            _, i, key = ev
            if i in calls and calls[i][1] is not None:
                # the id is still waiting for its answer: with the state unknown the model ignores the event; with
                # the state resolved a call is answered at once (the outstanding one stays outstanding)
                if sc.client._api_versions is None:
                    obs += cell()
                else:
                    h2 = watch(sc.client.get_api_version(key))
                    obs += cell() + result(h2)
                continue
            n0 = len(sc.unaware)
            h = watch(sc.client.get_api_version(key))
            rid = sc.unaware[n0][0] if len(sc.unaware) > n0 else None
            calls[i] = [h, rid]
            obs += cell() + (result(h) if rid is None else [])
        else:
            _, i, o = ev
            h, rid = calls.get(i, (None, None))
            pending = [e for e in sc.unaware if e[0] == rid and not e[2].called] if rid is not None else []
            if pending:
                sc.deliver(pending[0], o)
                obs += cell() + result(h)
                if h:
                    calls[i][1] = None
            else:
                obs += cell()
    rewritten = cell_rewritten(sc.client)
    if rewritten:
        cells.append(("rewritten",) + rewritten)
    return obs, cells


def case_events(discovery, evs):
    c = [61, 1 if discovery else 0, len(evs)]
    for ev in evs:
        if ev[0] == "call":
            c += [0, ev[1], ev[2]]
        elif ev[0] == "reset":
            c += [2]
        else:
            c += [1, ev[1]] + outcome_ints(ev[2])
    return c


# ------------------------------------------------------------------ end to end: Producer -> KafkaClient -> frames
def expected_produce(groups, codec_id, magic, base, version, corr, cid, acks, timeout):
    """What a Produce request of the Producer must parse to: `groups` = [(topic, partition, key, [value...])] in the
    order send_messages was called.  One payload per (topic, partition) in order of first occurrence
    (producer.py:371-411), its message set built by create_message_set: one message per value in order, format
    `magic`, timestamps = successive clock readings (base, base+1, ...) in creation order, one gzip wrapper around them
    when the codec says so (attributes = codec, key null, its own timestamp read after the inner ones)."""
    by_tp = {}
    for topic, partition, key, vals in groups:
        by_tp.setdefault((topic, partition), []).extend((key, v) for v in vals)
    k = 0
    payload_msgs = {}
    for tp, kvs in by_tp.items():
        inner = []
        for key, v in kvs:
            inner.append(pm(0, magic, 0, (base + k) if magic == 1 else None, key, v))
            k += magic
        if codec_id == 0:
            payload_msgs[tp] = [{"wrapper": False, "msg": m} for m in inner]
        else:
            payload_msgs[tp] = [{"wrapper": True, "inner": inner,
                                 "msg": pm(0, magic, codec_id, (base + k) if magic == 1 else None, None, None)}]
            k += magic
    topics = {}
    for (topic, partition), ms in payload_msgs.items():
        topics.setdefault(topic, []).append((partition, ms))
    return hdr_expect(0, version, corr, cid,
                      {"api": "Produce", "acks": acks, "timeout": timeout,
                       "topics": [(t.encode("ascii"), parts) for t, parts in topics.items()]})


def strip_wrapper_values(req):
    """the compressed bytes of a wrapper are not predicted (gzip header), its inner messages are: blank the value"""
    if req is None or req["body"]["api"] != "Produce":
        return req
    for _t, parts in req["body"]["topics"]:
        for _p, ms in parts:
            for m in ms:
                if m["wrapper"]:
                    m["msg"] = dict(m["msg"], value=None)
    return req


def e2e_producer(rnd, discovery, outs, codec_id):
    """The REAL Producer on the REAL KafkaClient; only the client's lowest request functions are scripted.
    Random topics, partitions (scripted partitioner), keys, values, req_acks, ack_timeout.  After the first Produce
    request went out its send FAILS (the broker client reports a timeout): the client drops its metadata
    (client.py:1367) and the producer retries the SAME payloads.  Returns a dict with every frame, what each must
    parse to, and the problems found."""
    from twisted.internet import defer
    from afkak.common import RequestTimedOutError
    from afkak.producer import Producer
    cid = rnd.choice(["afkak-client", nice(rnd)])
    sc = ScriptedClient(discovery, client_id=cid)
    del sc.client._send_broker_aware_request          # back to the real routing/encoding function
    frames = []                                       # [correlation id, bytes, Deferred]

    def make_request(broker, correlationId, request, expectResponse=True, min_timeout=None):
        d = defer.Deferred()
        frames.append([correlationId, bytes(request), d])
        return d
    sc.client._make_request_to_broker = make_request
    sc.client._get_brokerclient = lambda node_id: object()
    topics = [nice(rnd, 1, 12) for _ in range(rnd.randint(1, 2))]
    for t in topics:
        give_topic(sc.client, t, (0, 1, 2))
    groups = []
    for i in range(rnd.randint(1, 5)):
        vals = [rnd.choice([b"", b"v%d" % i, b"x" * rnd.randint(1, 20)]) for _ in range(rnd.randint(1, 2))]
        groups.append((rnd.choice(topics), rnd.choice([0, 1, 2]), rnd.choice([None, b"", b"k%d" % i]), vals))
    plan = iter([p for _t, p, _k, _v in groups])

    class ScriptedPartitioner(object):
        def __init__(self, topic, partitions):
            pass

        def partition(self, key, partitions):
            return next(plan)
    acks = rnd.choice([1, 1, -1, 2])
    timeout = rnd.choice([1000, 1, 30000, rnd.randint(1, 2 ** 31 - 1)])
    total = sum(len(v) for _t, _p, _k, v in groups)
    base = rnd.choice([1600000000000, 1234567890123, 7])
    problems = []
    resolved_table = discovery and any(o[0] == 0 and o[1] == 0 for o in outs)
    version, magic = (2, 1) if resolved_table else (0, 0)
    with CL.Recorder(base, 1):
        prod = Producer(sc.client, partitioner_class=ScriptedPartitioner, req_acks=acks, ack_timeout=timeout,
                        codec=(codec_id or None), batch_send=True, batch_every_n=total, batch_every_b=0, batch_every_t=0)
        for topic, _p, key, vals in groups:
            watch(prod.send_messages(topic, key=key, msgs=list(vals)))
        for o in outs:
            pending = [e for e in sc.unaware if not e[2].called]
            if not pending:
                break
            sc.deliver(pending[0], o)
        n_first = len(frames)
        # the send fails; metadata is refreshed; the retry timer fires; a lookup started by the retry (there must be
        # none) would be left without an answer three times
        for fr in list(frames):
            fr[2].errback(RequestTimedOutError("scripted: no response from the broker"))
        for t in topics:
            give_topic(sc.client, t, (0, 1, 2))
        for _ in range(4):
            sc.clock.advance(30)
            for e in [e for e in sc.unaware if not e[2].called]:
                sc.deliver(e, (1,))
    want = lambda corr: expected_produce(groups, codec_id, magic, base, version, corr, cid.encode("utf-8"), acks, timeout)   # noqa: E731
    if n_first != 1:
        problems.append("expected exactly one Produce request for the batch, saw %d" % n_first)
    if len(frames) <= n_first:
        problems.append("no retry after the failed send")
    parsed = []
    for k, (corr, fr, _d) in enumerate(frames):
        req = strip_wrapper_values(KS.parse_request(fr))
        parsed.append(req)
        if req != want(corr):
            problems.append("frame %d (%s) does not parse to what the caller supplied" % (k, "first send" if k < n_first else "retry"))
        elif not KS.format_matches_version(req):
            problems.append("frame %d: message format does not match the header version" % k)
    rewritten = cell_rewritten(sc.client)
    if rewritten:
        problems.append("KafkaClient._api_versions written again after it was resolved: %s -> %s" % rewritten)
    return {"frames": [(c, f) for c, f, _ in frames], "api_frames": [e[1] for e in sc.unaware], "n_first": n_first,
            "parsed": parsed, "expected": [want(c) for c, _f, _d in frames], "problems": problems,
            "config": {"client_id": cid, "acks": acks, "timeout": timeout, "codec": codec_id, "groups": repr(groups),
                       "discovery": discovery, "outcomes": outs, "clock_base": base}}


def is_subsequence(xs, ys):
    it = iter(ys)
    return all(any(x == y for y in it) for x in xs)


# ------------------------------------------------------------------ end to end: every request type through KafkaClient
NICE = "abcdefghijklmnopqrstuvwxyzABCXYZ0123456789._-"


def nice(rnd, lo=1, hi=20):
    return "".join(rnd.choice(NICE) for _ in range(rnd.randint(lo, hi)))


def e2e_client(rnd, g, discovery=False):
    """Drive the REAL KafkaClient's public request methods (and the coordinator request function the group
    Coordinator uses); capture (correlation id registered with the broker client, bytes) at the lowest request
    functions.  discovery=True: the version lookup is answered with a table first (Produce/Fetch go out as v2).
    Returns [(api, args for Api.expect, frame)]."""
    from twisted.internet import defer
    from afkak.common import (BrokerMetadata, FetchRequest, OffsetCommitRequest, OffsetFetchRequest, OffsetRequest,
                              ProduceRequest, TopicAndPartition, _HeartbeatRequest, _JoinGroupRequest, _JoinGroupRequestProtocol,
                              _LeaveGroupRequest, _SyncGroupRequest, _SyncGroupRequestMember)
    from afkak.kafkacodec import KafkaCodec
    cid = rnd.choice(["afkak-client", nice(rnd), "klient-\u00e9"])
    sc = ScriptedClient(discovery, client_id=cid)
    cidb = cid.encode("utf-8")
    del sc.client._send_broker_aware_request
    frames = []
    pver = fver = 0
    if discovery:
        table = gen_table(rnd, True)
        h = watch(sc.client.get_api_version(KafkaCodec.PRODUCE_KEY))
        sc.deliver(sc.unaware[-1], (0, 0, table))
        pver = h[0][1]
        fver = fired(sc.client.get_api_version(KafkaCodec.FETCH_KEY))[1]

    def make_request(broker, correlationId, request, expectResponse=True, min_timeout=None):
        frames.append((correlationId, bytes(request)))
        return defer.Deferred()
    sc.client._make_request_to_broker = make_request
    sc.client._get_brokerclient = lambda node_id: object()
    topics = [nice(rnd) for _ in range(rnd.randint(1, 3))]
    group = nice(rnd)
    sc.client._group_to_coordinator[group] = BrokerMetadata(1, "h", 9092)

    def leaders(payloads):
        for p in payloads:
            sc.client.topics_to_brokers[TopicAndPartition(p.topic, p.partition)] = BrokerMetadata(1, "h", 9092)
    out = []

    def last(api, a):
        rid, fr = frames[-1]
        a.update({"cid": cidb, "corr": rid})
        out.append((api, a, fr))
    n = rnd.randint(1, 4)
    part = lambda: rnd.choice([0, 1, 2, 7])            # noqa: E731
    # produce, called directly with message lists of both formats (the format is the CALLER's business here)
    papi = ProduceApi()
    ps, inner_of = [], {}
    for _ in range(n):
        while True:
            mi = papi.gen_messages(g)
            if all(m.magic in (0, 1) and 0 <= m.attributes < 256 and (m.attributes & 7 == 0 or inner is not None)
                   and (m.timestamp is None or I64[0] <= m.timestamp <= I64[1])
                   and all(x is None or len(x) < 1000 for x in (m.key, m.value)) for m, inner in mi):
                break
        for m, inner in mi:
            if inner is not None:
                inner_of[id(m)] = inner
        ps.append(ProduceRequest(rnd.choice(topics), part(), [m for m, _ in mi]))
    leaders(ps)
    acks, tmo, clock = rnd.choice([1, -1, 0, 3]), rnd.choice([1000, g.i32(oob=0)]), (rnd.choice([5, 1600000000000]), 1)
    with CL.Recorder(*clock):
        watch(sc.client.send_produce_request(ps, acks=acks, timeout=tmo))
    last("produce", {"payloads": ps, "acks": acks, "timeout": tmo, "ver": pver, "clock": clock, "inner_of": inner_of, "keep": ps})
    # fetch
    ps = [FetchRequest(rnd.choice(topics), part(), g.i64(oob=0), g.i32(oob=0)) for _ in range(n)]
    leaders(ps)
    w, mb = rnd.choice([0, 100, 500]), g.i32(oob=0)
    watch(sc.client.send_fetch_request(ps, max_wait_time=w, min_bytes=mb))
    last("fetch", {"payloads": ps, "wait": w, "minb": mb, "ver": fver})
    ps = [OffsetRequest(rnd.choice(topics), part(), rnd.choice([-1, -2, g.i64(oob=0)]), g.i32(oob=0)) for _ in range(n)]
    leaders(ps)
    watch(sc.client.send_offset_request(ps))
    last("list_offsets", {"payloads": ps})
    ps = [OffsetFetchRequest(rnd.choice(topics), part()) for _ in range(n)]
    watch(sc.client.send_offset_fetch_request(group, ps))
    last("offset_fetch", {"group": group, "payloads": ps})
    ps = [OffsetCommitRequest(rnd.choice(topics), part(), g.i64(oob=0), rnd.choice([-1, g.i64(oob=0)]), rnd.choice([None, b"", b"meta"]))
          for _ in range(n)]
    gen_id, consumer = rnd.choice([-1, 0, 5]), rnd.choice(["", nice(rnd)])
    watch(sc.client.send_offset_commit_request(group, ps, group_generation_id=gen_id, consumer_id=consumer))
    last("offset_commit", {"group": group, "gen": gen_id, "consumer": consumer, "payloads": ps})
    # group membership requests, as afkak._group.Coordinator issues them
    member = rnd.choice(["", nice(rnd), "m-\u00e9\u20ac"])
    protos = [(nice(rnd), CL.rbytes(rnd, rnd.randint(0, 12))) for _ in range(rnd.randint(1, 2))]
    session = rnd.choice([6000, 30000])
    watch(sc.client._send_request_to_coordinator(
        group, _JoinGroupRequest(group, session, member, "consumer", [_JoinGroupRequestProtocol(a, b) for a, b in protos]),
        encoder_fn=KafkaCodec.encode_join_group_request, decode_fn=KafkaCodec.decode_join_group_response, min_timeout=35.0))
    last("join_group", {"group": group, "session": session, "member": member, "ptype": "consumer", "protos": protos})
    asg = [(nice(rnd), CL.rbytes(rnd, rnd.randint(0, 12))) for _ in range(rnd.randint(0, 3))]
    watch(sc.client._send_request_to_coordinator(
        group=group, payload=_SyncGroupRequest(group, 3, member, [_SyncGroupRequestMember(a, b) for a, b in asg]),
        encoder_fn=KafkaCodec.encode_sync_group_request, decode_fn=KafkaCodec.decode_sync_group_response))
    last("sync_group", {"group": group, "gen": 3, "member": member, "asg": asg})
    watch(sc.client._send_request_to_coordinator(
        group=group, payload=_HeartbeatRequest(group, 3, member),
        encoder_fn=KafkaCodec.encode_heartbeat_request, decode_fn=KafkaCodec.decode_heartbeat_response))
    last("heartbeat", {"group": group, "gen": 3, "member": member})
    watch(sc.client._send_request_to_coordinator(
        group=group, payload=_LeaveGroupRequest(group, member),
        encoder_fn=KafkaCodec.encode_leave_group_request, decode_fn=KafkaCodec.decode_leave_group_response))
    last("leave_group", {"group": group, "member": member})
    # broker-agnostic requests: metadata and coordinator lookup
    mt = rnd.sample(topics, rnd.randint(0, len(topics)))
    watch(sc.client.load_metadata_for_topics(*mt))
    rid, fr, _d = sc.unaware[-1]
    out.append(("metadata", {"cid": cidb, "corr": rid, "topics": list(mt)}, fr))
    g2 = nice(rnd)
    watch(sc.client.load_coordinator_for_group(g2))
    rid, fr, _d = sc.unaware[-1]
    out.append(("find_coordinator", {"cid": cidb, "corr": rid, "group": g2}, fr))
    return out


def all_event_histories(depth):
    """every sequence of at most `depth` events over: two calls, for each of them the four outcomes, and a reset"""
    outcomes = [(0, 0, RACE_TABLE), (0, 35, []), (1,), (2,)]
    alphabet = [("call", 0, 0), ("call", 1, 1), ("reset", 0)] + [("reply", i, o) for i in (0, 1) for o in outcomes]
    seqs = [[]]
    out = []
    for _ in range(depth):
        seqs = [sq + [e] for sq in seqs for e in alphabet]
        out += seqs
    return out


# ------------------------------------------------------------------ absent (None) strings at the public entry points
def entry_points_with_none():
    """The codec emits length -1 for a None topic / group (not a request of the grammar; Example
    null_string_not_grammatical).  Through the public entry points no such request may go out: every call must fail
    (TypeError from _coerce_topic / _coerce_consumer_group) without handing a frame to a broker client.
    Returns [(entry point, outcome, frames emitted)]."""
    from twisted.internet import defer
    from afkak.common import FetchRequest, OffsetCommitRequest, OffsetFetchRequest, OffsetRequest, ProduceRequest
    from afkak.consumer import Consumer
    from afkak.producer import Producer
    out = []

    def attempt(name, fn):
        sc = ScriptedClient(False)
        del sc.client._send_broker_aware_request
        frames = []

        def make_request(broker, correlationId, request, expectResponse=True, min_timeout=None):
            frames.append(bytes(request))
            return defer.Deferred()
        sc.client._make_request_to_broker = make_request
        sc.client._get_brokerclient = lambda node_id: object()
        give_topic(sc.client, "t")
        try:
            r = fn(sc.client)
            if isinstance(r, defer.Deferred):
                st, v = fired(r)
                outcome = "pending" if st == 0 else "returned" if st == 1 else "failed:" + type(v.value).__name__
            else:
                outcome = "returned"
        except Exception as e:  # noqa
            outcome = "raised:" + type(e).__name__
        out.append((name, outcome, frames + [e[1] for e in sc.unaware]))
    attempt("load_metadata_for_topics(None)", lambda c: c.load_metadata_for_topics(None))
    attempt("load_coordinator_for_group(None)", lambda c: c.load_coordinator_for_group(None))
    attempt("send_produce_request(topic None)", lambda c: c.send_produce_request([ProduceRequest(None, 0, [])]))
    attempt("send_fetch_request(topic None)", lambda c: c.send_fetch_request([FetchRequest(None, 0, 0, 1)]))
    attempt("send_offset_request(topic None)", lambda c: c.send_offset_request([OffsetRequest(None, 0, -1, 1)]))
    attempt("send_offset_fetch_request(group None)", lambda c: c.send_offset_fetch_request(None, [OffsetFetchRequest("t", 0)]))
    attempt("send_offset_commit_request(group None)",
            lambda c: c.send_offset_commit_request(None, [OffsetCommitRequest("t", 0, 1, -1, None)]))
    attempt("Producer.send_messages(topic None)", lambda c: Producer(c).send_messages(None, msgs=[b"x"]))
    attempt("Consumer(topic None)", lambda c: Consumer(c, None, 0, lambda *a: None))
    return out


# ------------------------------------------------------------------ finding F-C04-4: overlapping lookups
RACE_TABLE = [(0, 0, 7), (1, 0, 10), (18, 0, 2)]


def probe_overlap_race(x_outcome=(1,)):
    """Overlapping lookups on the real KafkaClient + Producer:
    lookup X (a consumer's first fetch) and lookup Y (the producer's) overlap; Y is answered with a table, the
    producer sends Produce v2 / format 1; the broker answers NotLeaderForPartition, the producer schedules a retry of
    the SAME payloads; X ends with x_outcome ((1,) = KafkaUnavailableError: F-C04-4, repaired by 276cfa2;
    (0, 35, []) = an answer carrying an error code: F-C04-5, repaired by 8e462bd);
    the retry goes out.  Returns (observed, trace)."""
    from twisted.internet import defer
    from afkak.kafkacodec import KafkaCodec
    from afkak.producer import Producer
    sc = ScriptedClient(True)
    del sc.client._send_broker_aware_request
    frames = []

    def make_request(broker, correlationId, request, expectResponse=True, min_timeout=None):
        d = defer.Deferred()
        frames.append((correlationId, bytes(request), d))
        return d
    sc.client._make_request_to_broker = make_request
    sc.client._get_brokerclient = lambda node_id: object()
    give_topic(sc.client, "t", (0,))
    watch(sc.client.get_api_version(KafkaCodec.FETCH_KEY))           # lookup X
    prod = Producer(sc.client)
    watch(prod.send_messages("t", msgs=[b"a"]))                      # lookup Y
    trace = {"outstanding_lookups": len(sc.unaware)}
    if len(sc.unaware) != 2:
        return False, trace
    x, y = sc.unaware[0], sc.unaware[1]
    sc.deliver(y, (0, 0, RACE_TABLE))
    trace["cell_after_Y_answered"] = repr(sc.client._api_versions)
    if not frames:
        return False, trace
    r = KS.parse_request(frames[0][1])
    trace["frame1"] = None if r is None else {"version": r["version"], "magics": KS.magics(r)}
    resp = (struct.pack(">ii", frames[0][0], 1) + struct.pack(">h", 1) + b"t" + struct.pack(">i", 1)
            + struct.pack(">ihqq", 0, 6, -1, -1) + struct.pack(">i", 0))      # NotLeaderForPartition
    frames[0][2].callback(resp)
    sc.deliver(x, x_outcome)
    trace["cell_after_X_ended"] = repr(sc.client._api_versions)
    give_topic(sc.client, "t", (0,))                                 # the metadata refresh after NotLeader
    sc.clock.advance(10)
    trace["retry_frames"] = []
    observed = False
    for _cid, fr, _d in frames[1:]:
        r = KS.parse_request(fr)
        ok = r is not None and KS.format_matches_version(r)
        trace["retry_frames"].append({"bytes": list(fr), "version": r and r["version"], "magics": r and KS.magics(r),
                                      "format_matches_version": ok})
        observed = observed or not ok
    return observed, trace


# ------------------------------------------------------------------ translator tie (tie A of DESIGN.md 10.2b)
ENCODER_API = {"encode_api_versions_request": "api_versions", "encode_metadata_request": "metadata",
               "encode_consumermetadata_request": "find_coordinator", "encode_heartbeat_request": "heartbeat",
               "encode_leave_group_request": "leave_group", "encode_join_group_request": "join_group",
               "encode_sync_group_request": "sync_group", "encode_offset_request": "list_offsets",
               "encode_offset_fetch_request": "offset_fetch", "encode_offset_commit_request": "offset_commit",
               "encode_fetch_request": "fetch", "encode_produce_request": "produce",
               "_encode_message_set": "produce", "_encode_message": "produce", "create_message": "produce",
               "create_gzip_message": "produce", "create_message_set": "produce"}


def translator_tie(ck):
    """Props/C04gen.v (what the committed encoder terms compute: hard obligations about committed files) and, per run,
    source -> term -> equal to the committed term.  Returns the set of API names whose tie is NOT intact although a
    committed term exists (tie B then gets a larger sample).  Never a violation by itself."""
    import enc_tie
    ok, log = ck.make_soft("Props/C04gen.vo")
    if not ok:
        ck.cov["translator_tie"] = {"state": "unavailable: Props/C04gen.v does not build", "log": log[-800:]}
        return set(ENCODER_API.values())
    ck.props("C04gen")
    try:
        r = enc_tie.check(vlib.REPO)
    except Exception as e:  # noqa
        ck.cov["translator_tie"] = {"state": "unavailable: %r" % (e,)}
        return set(ENCODER_API.values())
    intact = sorted(fn for fn, st in r["status"].items() if st == "intact")
    ck.cov["translator_tie"] = {
        "state": "intact for %d of %d encoders" % (len(intact), len(r["status"])),
        "source": os.path.join(vlib.REPO, "afkak/kafkacodec.py"), "per_encoder": r["status"],
        "dropped_by_translator": r["notes"], "scratch_dir": os.path.relpath(r["dir"], vlib.ROOT),
        "cached_result": r.get("cached", False)}
    ck.cov["obligations"] += len(intact)
    ck.cov["discharged"] += len(intact)
    ck.cov["theorems"] += [{"name": "gen_%s_is_ast (per run, %s)" % (fn.lstrip("_"), os.path.relpath(r["dir"], vlib.ROOT)),
                            "axioms": [], "accepted": True} for fn in intact]
    ck.cov["trusted_base"].append("translator harness/py2enc.py (struct.pack formats read as Prim.pack_list, the _util writers as the "
                                  "Prim writers, dict iteration = insertion order, += / append+join / + as concatenation in evaluation "
                                  "order; type guards and None-defaults dropped)")
    down = {api for fn, api in ENCODER_API.items() if r["status"].get(fn) != "intact"}
    # a translated function that is not tied to one API (the header, the subscription/assignment blobs, the snappy
    # constructor): if ITS tie is down every API's byte-equality sample is enlarged
    if any(st != "intact" for fn, st in r["status"].items() if fn not in ENCODER_API):
        down = set(ENCODER_API.values())
    return down


# ------------------------------------------------------------------ the check
def run(ck):
    vlib.import_repo()
    import logging
    logging.getLogger("afkak").addHandler(logging.NullHandler())     # the drivers provoke failures on purpose
    logging.getLogger("afkak").propagate = False
    ck.build([MODEL])
    ck.props()
    tie_down = translator_tie(ck)
    rnd = random.Random(ck.seed)
    g = Gen(rnd)
    scale = 1 if ck.tier == "quick" else 12
    codec_cls = codec()

    # ---- 1. encoders: bytes equality, then both grammar parsers on the implementation's bytes
    enc_cases, enc_impl, enc_meta = [], [], []
    sp_cases, sp_impl, sp_meta = [], [], []
    for api in APIS:
        n = (200 if api.name == "produce" else 90) * scale
        if api.name in tie_down:          # two-ties rule: the translator tie is down for this encoder, tie B carries it alone
            n *= 4
            ck.hist("cases_added_because_translator_tie_is_down_" + api.name, 3 * n // 4)
        for _ in range(n):
            a = api.gen(g)
            tr = api.run_impl(a)
            enc_cases.append(api.case(a))
            enc_impl.append(tr)
            enc_meta.append((api, a))
            ck.hist("encode_%s_%s" % (api.name, "ok" if tr[0] == 0 else CL.ERR_NAMES.get(tr[0], "?")))
            if api.name == "produce":
                for kd in a["kinds"]:
                    ck.hist("produce_messages_" + kd)
            if tr[0] != 0:
                continue
            data = bytes(tr[2:])
            req, flat, case = spec_parse(data)
            sp_cases.append(case)
            sp_impl.append(flat)
            sp_meta.append((api, a, data))
            want = api.expect(a)
            if want is None:
                ck.hist("outside_hypotheses_%s_%s" % (api.name, "parsed" if req else "rejected"))
                continue
            ck.hist("conforming_" + api.name + ("_v%d" % want["version"] if api.name in ("produce", "fetch") else ""))
            if "payloads" in a and len({(p.topic, p.partition) for p in a["payloads"]}) < len(a["payloads"]):
                ck.hist("payload_lists_with_duplicate_keys")
            if api.name == "produce":
                for mg in sorted(set(KS.magics(req))) if req else []:
                    ck.hist("conforming_produce_v%d_format%d" % (want["version"], mg))
            if req != want:
                ck.violation({"kind": "request does not parse to the supplied fields under the independent Kafka grammar",
                              "api": api.name, "theorem": THEOREM_OF[api.name], "case": api.case(a),
                              "bytes": list(data), "parsed": repr(req)[:1500], "expected": repr(want)[:1500],
                              "replay_op": "encode"})
    diffs, mo = ck.correspond(MODEL, MODULE, enc_cases, enc_impl, "KafkaCodec.encode_* vs Model.Requests (bytes or exception kind)",
                              nontrivial=lambda c, o: o[0] == 0 and len(o) > 16, describe=describe)
    for i in diffs[:3]:
        api, a = enc_meta[i]
        # a difference in the bytes: is the implementation's output still grammatical with the right fields?
        v = {"kind": "encoder output differs from the proved model", "api": api.name, "case": enc_cases[i],
             "impl": enc_impl[i][:400], "model": mo[i][:400], "replay_op": "encode"}
        if not ck.violations:
            v.update({"correspondence": "corr:req:" + api.name, "theorems_no_longer_tied": [THEOREM_OF[api.name]]})
            ck.violation(v, no_input=True)
    diffs, mo = ck.correspond(MODEL, MODULE, sp_cases, sp_impl,
                              "harness/kafkaspec_req.py vs Model.KafkaSpecReq.parse_request on the bytes the implementation emitted",
                              nontrivial=lambda c, o: o[0] == 1, describe=describe)
    for i in diffs[:3]:
        api, a, data = sp_meta[i]
        ck.violation({"kind": "the two independent grammar parsers disagree (verification machinery, not afkak)",
                      "api": api.name, "bytes": list(data), "python": sp_impl[i][:300], "coq": mo[i][:300]}, no_input=True)

    # ---- 1b. embedded structures of JoinGroup / SyncGroup
    cases, impl, pcases, pimpl = [], [], [], []
    for _ in range(50 * scale):
        s = gen_subscription(g)
        tr = CL.trace_bytes(lambda: codec_cls.encode_join_group_protocol_metadata(s["version"], s["subs"], s["ud"]))
        c = [13, s["version"], len(s["subs"])]
        for t in s["subs"]:
            c += cps(t)
        cases.append(c + olp(s["ud"]))
        impl.append(tr)
        if tr[0] == 0:
            data = bytes(tr[2:])
            got = KS.parse_subscription(data)
            pcases.append([51] + lp(data))
            pimpl.append(KS.flatten_subscription(got))
            if all_present(*s["subs"]):
                ck.hist("conforming_subscription")
                if got != (s["version"], [t.encode("utf-8") for t in s["subs"]], s["ud"]):
                    ck.violation({"kind": "consumer protocol Subscription does not parse to the supplied fields", "args": repr(s),
                                  "bytes": list(data), "parsed": repr(got), "replay_op": "none"})
        a = gen_assignment(g)
        tr = CL.trace_bytes(lambda: codec_cls.encode_sync_group_member_assignment(a["version"], a["asg"], a["ud"]))
        c = [14, a["version"], len(a["asg"])]
        for t, ps in a["asg"].items():
            c += cps(t) + lp(ps)
        cases.append(c + olp(a["ud"]))
        impl.append(tr)
        if tr[0] == 0:
            data = bytes(tr[2:])
            got = KS.parse_assignment(data)
            pcases.append([52] + lp(data))
            pimpl.append(KS.flatten_assignment(got))
            ck.hist("conforming_assignment")
            if got != (a["version"], [(t.encode("ascii"), list(ps)) for t, ps in a["asg"].items()], a["ud"]):
                ck.violation({"kind": "consumer protocol Assignment does not parse to the supplied fields", "args": repr(a),
                              "bytes": list(data), "parsed": repr(got), "replay_op": "none"})
    diffs, mo = ck.correspond(MODEL, MODULE, cases + pcases, impl + pimpl,
                              "consumer-protocol Subscription/Assignment: encoders vs Model.Requests, parsers Python vs Coq",
                              nontrivial=lambda c, o: o[0] in (0, 1) and len(o) > 6, describe=describe)
    if diffs and not ck.violations:
        i = diffs[0]
        ck.violation({"kind": "correspondence broken", "correspondence": "corr:req:consumer_protocol",
                      "case": (cases + pcases)[i][:200], "impl": (impl + pimpl)[i][:200], "model": mo[i][:200]}, no_input=True)

    # ---- 2. version negotiation, one lookup at a time (op 60) + monitors restating C04_negotiation
    cases, impl, meta = [], [], []
    fixed = [(True, [(0, 0, [(18, 0, 0), (0, 0, 8), (1, 0, 11)])]),            # F-C04-2 shape: table not starting 0,1,...
             (True, [(0, 0, [(17, 0, 1), (0, 0, 8), (1, 0, 11)])]),
             (True, [(1,), (1,), (1,)]), (True, [(0, 35, [])]), (False, []), (True, []), (True, [(1,), (1,)]),
             (True, [(2,)]), (True, [(1,), (0, 0, [(1, 0, 2), (0, 0, 2)])])]
    for k in range(100 * scale + len(fixed)):
        if k < len(fixed):
            discovery, outs = fixed[k]
            ok_tables = True
        else:
            discovery = rnd.random() < 0.85
            ok_tables = rnd.random() < 0.8
            outs = gen_outcomes(rnd, ok_tables)
        tr, frames = impl_negotiate(discovery, outs)
        case = [60, 1 if discovery else 0, len(outs)] + [x for o in outs for x in outcome_ints(o)]
        cases.append(case)
        impl.append(tr)
        meta.append((discovery, outs))
        ck.hist("negotiate_" + {1: "resolved", 2: "pending", 3: "failed"}.get(tr[0], "anomaly%d" % tr[0]))
        if tr[0] < 0:
            ck.violation({"kind": "request built after version negotiation is not grammatical / not sent", "discovery": discovery,
                          "outcomes": outs, "trace": tr, "replay_op": "negotiate"})
        if tr[0] == 1 and ok_tables:
            _, pa, ph, pd, fa, fh, fd, mg = tr
            good = [o for o in outs if o[0] == 0 and o[1] == 0]
            bad = None
            if ph not in (0, 2) or fh not in (0, 2):
                bad = "header version not one afkak implements"
            elif pd != ph or fd != fh:
                bad = "reply decoded with a layout other than the one of the version written in the request header"
            elif mg != (1 if ph == 2 else 0):
                bad = "message format does not follow the produce version"
            elif (ph, fh) != (0, 0):
                tabs = [dict((e[0], e) for e in reversed(o[2])) for o in good]
                if not any(0 in t and 1 in t and t[0][1] <= ph <= t[0][2] and t[1][1] <= fh <= t[1][2] for t in tabs):
                    bad = "chosen version outside every advertised [min, max]"
            if not discovery or not good:
                ck.hist("negotiate_must_fall_back")
                if (pa, ph, pd, fa, fh, fd, mg) != (0, 0, 0, 0, 0, 0, 0):
                    bad = "discovery disabled or failed but version 0 / format 0 not selected"
            if bad:
                ck.violation({"kind": "version negotiation: " + bad, "theorem": "C04_negotiation", "discovery": discovery,
                              "outcomes": outs, "observed": dict(zip(["produce_arg", "produce_header", "produce_decoder", "fetch_arg",
                                                                      "fetch_header", "fetch_decoder", "magic"], tr[1:])),
                              "replay_op": "negotiate"})
    diffs, mo = ck.correspond(MODEL, MODULE, cases, impl, "KafkaClient version lookup + send_produce/fetch_request + producer format vs Model.ClientVersion.negotiate",
                              nontrivial=lambda c, o: o[0] == 1, describe=describe)
    if diffs and not ck.violations:
        i = diffs[0]
        ck.violation({"kind": "correspondence broken", "correspondence": "corr:req:negotiate",
                      "theorems_no_longer_tied": ["C04_negotiation", "C04_negotiation_failure_selects_0"],
                      "discovery": meta[i][0], "outcomes": meta[i][1], "impl": impl[i], "model": mo[i], "replay_op": "negotiate"}, no_input=True)

    # ---- 3. overlapping lookups (op 61)
    cases, impl, meta = [], [], []
    histories = [(rnd.random() < 0.9, gen_events(rnd)) for _ in range(100 * scale)]
    # exhaustive small scope (validation of the tie, not the proof): EVERY history of up to 3 (thorough: 4) events
    # over two overlapping calls and the outcomes table / error answer / unavailable / other failure
    exhaustive = all_event_histories(3 if ck.tier == "quick" else 4)
    histories += [(True, evs) for evs in exhaustive]
    ck.hist("event_histories", len(histories) - len(exhaustive))
    ck.hist("event_histories_exhaustive", len(exhaustive))
    for discovery, evs in histories:
        obs, cells = impl_events(discovery, evs)
        cases.append(case_events(discovery, evs))
        impl.append(obs)
        meta.append((discovery, evs))
        # monitor restating C04_resolved_state_final on the implementation's own trace
        resolved = None
        for c in cells:
            if resolved is not None and c != resolved:
                ck.violation({"kind": "version state changed after it was resolved", "theorem": "C04_resolved_state_final",
                              "discovery": discovery, "events": evs, "cells": cells, "replay_op": "none"})
                break
            if c[0] != 0:
                resolved = c
    diffs, mo = ck.correspond(MODEL, MODULE, cases, impl, "overlapping get_api_version calls: KafkaClient._api_versions and results vs Model.ClientVersion.step",
                              nontrivial=lambda c, o: len(o) >= 3, describe=describe)
    if diffs and not ck.violations:
        i = diffs[0]
        ck.violation({"kind": "correspondence broken", "correspondence": "corr:req:events",
                      "theorems_no_longer_tied": ["C04_choice_consistent_always", "C04_resolved_state_final"],
                      "discovery": meta[i][0], "events": meta[i][1], "impl": impl[i], "model": mo[i], "replay_op": "none"}, no_input=True)

    # ---- 4. end to end: Producer -> KafkaClient -> frames, parsed by both grammar parsers
    sp_cases, sp_impl = [], []
    for k in range(40 * scale):
        discovery = rnd.random() < 0.85
        outs = [[(1,), (1,), (1,)], [(0, 35, [])], [(0, 0, gen_table(rnd, True))], [(1,), (0, 0, gen_table(rnd, True))]][k % 4]
        codec_id = rnd.choice([0, 1])
        run = e2e_producer(rnd, discovery, outs, codec_id)
        resolved_table = discovery and any(o[0] == 0 and o[1] == 0 for o in outs)
        ck.hist("e2e_producer_" + ("table_v2_format1" if resolved_table else "fallback_v0_format0") + "_codec%d" % codec_id)
        ck.hist("e2e_producer_retry_frames", len(run["frames"]) - run["n_first"])
        for _corr, fr in run["frames"]:
            req, flat, case = spec_parse(fr)
            sp_cases.append(case)
            sp_impl.append(flat)
        for fr in run["api_frames"]:
            req, flat, case = spec_parse(fr)
            sp_cases.append(case)
            sp_impl.append(flat)
            if req is None or req["client"] != run["config"]["client_id"].encode("utf-8") or req["body"]["api"] not in ("ApiVersions", "Metadata"):
                ck.violation({"kind": "end to end: broker-agnostic frame is not an ApiVersions/Metadata request with the configured client id",
                              "bytes": list(fr), "parsed": repr(req)[:600], "replay_op": "frame"})
        for what in run["problems"][:1]:
            bad = [k for k, (a, b) in enumerate(zip(run["parsed"], run["expected"])) if a != b]
            k = bad[0] if bad else 0
            ck.violation({"kind": "end to end (Producer -> KafkaClient, failed send, retry): " + what,
                          "theorem": "C04_producer_request / C04_resolved_state_final", "config": run["config"],
                          "all_problems": run["problems"],
                          "bytes": list(run["frames"][k][1]) if run["frames"] else [],
                          "parsed": repr(run["parsed"][k])[:1500] if run["parsed"] else None,
                          "expected": repr(run["expected"][k])[:1500] if run["expected"] else None, "replay_op": "frame"})

    # ---- 4b. end to end: every other request type through the real KafkaClient
    by_name = {api.name: api for api in APIS}
    for k in range(16 * scale):
        for name, a, fr in e2e_client(rnd, g, discovery=(k % 2 == 1)):
            ck.hist("e2e_client_" + name + ("_v%d" % min(a["ver"], 2) if "ver" in a else ""))
            req, flat, case = spec_parse(fr)
            sp_cases.append(case)
            sp_impl.append(flat)
            want = by_name[name].expect(a)
            if req is None or req != want:
                ck.violation({"kind": "end to end: request sent by KafkaClient does not parse to the arguments of the call "
                                      "(client id, the correlation id registered with the broker client, fields)",
                              "api": name, "theorem": THEOREM_OF[name], "bytes": list(fr), "parsed": repr(req)[:1200],
                              "expected": repr(want)[:1200], "replay_op": "frame"})

    # ---- 4c. the request stream as a broker receives it: REAL KafkaClient + _KafkaBrokerClient + protocol + Producer +
    #          Consumer + ConsumerGroup over simnet, simulated broker built from the independent grammar only
    from props import C04_stream
    for k in range(24 * scale):
        api_mode, discovery = [("table", True), ("error35", True), ("close", True), ("table", False)][k % 4]
        codec_id = (k // 4) % 2
        frames, problems, info = C04_stream.run_stream(rnd, nice, discovery, api_mode, codec_id)
        ck.hist("stream_%s_%s_codec%d" % ("discovery" if discovery else "nodiscovery", api_mode, codec_id))
        for api, n in info["apis"].items():
            ck.hist("stream_frames_" + api, n)
        for body, _req in frames:
            _r, flat, case = spec_parse(body)
            sp_cases.append(case)
            sp_impl.append(flat)
        if problems:
            ck.violation({"kind": "request stream received by the simulated broker (real client, broker client, framing, producer, "
                                  "consumer, group): " + problems[0][:600], "all_problems": [x[:600] for x in problems[:10]],
                          "config": info, "frames": [list(b) for b, _ in frames][:60], "replay_op": "none"})
    diffs, mo = ck.correspond(MODEL, MODULE, sp_cases, sp_impl, "grammar parsers Python vs Coq on every frame captured end to end (Producer -> KafkaClient incl. retry; KafkaClient request methods; byte stream written to the transports by the real broker client + framing)",
                              nontrivial=lambda c, o: o[0] == 1, describe=describe)
    if diffs:
        i = diffs[0]
        ck.violation({"kind": "the two independent grammar parsers disagree on a frame captured end to end (verification machinery)",
                      "case": sp_cases[i][:300], "python": sp_impl[i][:300], "coq": mo[i][:300]}, no_input=True)

    # ---- 4d. None where the grammar wants a string: outside the theorems' hypotheses ([astr_wf] is false on None);
    #          through the public entry points it must never produce a frame
    for name, outcome, frs in entry_points_with_none():
        ck.hist("entry_point_none_" + outcome.split(":")[0])
        bad = [fr for fr in frs if KS.parse_request(fr) is None]
        if bad or outcome in ("returned", "pending") and frs:
            ck.violation({"kind": "a public entry point given None for a topic/group emitted a request (None is written as length -1: "
                                  "not a request of the Kafka grammar)", "entry_point": name, "outcome": outcome,
                          "bytes": list((bad or frs)[0]), "replay_op": "frame"})
    ck.cov["outside_hypotheses"] = {
        "null_non_nullable_string": "KafkaCodec.encode_* given None for a STRING field returns bytes with length -1 that both grammar "
                                    "parsers reject (Example null_string_not_grammatical); counted in the histogram as "
                                    "outside_hypotheses_*_rejected; the public entry points reject None (entry_point_none_*)",
        "duplicate_topic_partition": "payload lists repeating a (topic, partition): only the LAST payload is encoded "
                                     "(C04_group_last_wins, C04_duplicate_keys_injective_refuted); with distinct keys nothing is lost "
                                     "(C04_group_complete); afkak's own callers never repeat a key (C09_one_payload)",
        "cases_with_duplicate_keys": ck.cov["histogram"].get("payload_lists_with_duplicate_keys", 0)}

    # ---- 5. finding probes: overlapping lookups, the real client and producer
    observed, trace = probe_overlap_race((1,))
    ck.finding("F-C04-4", observed,
               "overlapping version lookups: a lookup failing (KafkaUnavailableError) after another one stored the broker's table "
               "overwrites it with the fallback 0; a produce retry of payloads built in format 1 goes out as Produce v0 carrying magic-1 messages",
               {"kind": "Produce v0 carrying format-1 messages after overlapping version lookups (lookup failed)", "trace": trace,
                "theorem": "C04_resolved_state_final", "replay_op": "race", "x_outcome": [1]})
    observed, trace = probe_overlap_race((0, 35, []))
    ck.finding("F-C04-5", observed,
               "overlapping version lookups: a lookup ANSWERED with an error code after another one stored the broker's table overwrites "
               "it with the fallback 0 (client.py:825,856-860); a produce retry of payloads built in format 1 goes out as Produce v0 "
               "carrying magic-1 messages",
               {"kind": "Produce v0 carrying format-1 messages after overlapping version lookups (error answer)", "trace": trace,
                "theorem": "C04_resolved_state_final", "replay_op": "race", "x_outcome": [0, 35, []]})

    if ck.tier == "thorough":
        ck.coqchk(["AV.Props.C04"])
    ck.cov["rule"] = (
        "seeded generator (random.Random(VERIF_SEED)) per API: boundary and out-of-range integers for every wire field, client ids "
        "(empty, 32767/32768 bytes), ASCII / non-ASCII / unencodable / absent / 32767-32768-byte strings, 0..6 payloads over 1..3 topics with "
        "repeated (topic, partition) pairs, null/empty/large keys values and metadata; Produce message lists built by the real "
        "create_message_set (format 0/1, none/gzip) and hand-made Message objects (attribute bits, timestamps, clock readings); "
        "advertised tables with every key once in random order; ApiVersions outcomes (answer/error/unavailable/failure); overlapping "
        "lookups.  A case is non-trivial if the encoder returned more than a bare header / the parse succeeded / the lookup resolved; "
        "distinct = distinct canonical case lines.")
    ck.assumptions += [
        "Model/Requests.v is a hand transcription of kafkacodec.py:266-286,476-488,524-582,640-686,718-745,770-788,841-852,867-910,"
        "930-955,979-1008,1046-1058,1070-1084,1096-1139 and _util.py:209-213; Model/ClientVersion.v of client.py:236,693-700,732-741,"
        "810-860 and producer.py:350-360,403-406 (tied to the code by this run's correspondence only)",
        "Model/KafkaSpecReq.v and harness/kafkaspec_req.py are two transcriptions of the Kafka protocol guide (request header v1, the "
        "request schemas listed in their headers, message formats 0/1); they share no code with afkak and are compared with each other "
        "on every byte string parsed in a run; CRC-32 is Model.Crc (bitwise) on the Coq side and zlib.crc32 on the Python side",
        "argument types are the documented ones (str / bytes / int / None); the isinstance/assert guards of the encoders are outside the model",
        "gzip: the Python grammar parser inflates with the standard library, the Coq parser is given exactly those (input, output) pairs as "
        "its oracle; theorems hold for every oracle; snappy is not installed here and is exercised by no check",
        "the network layer of KafkaClient (_send_broker_unaware_request, _send_broker_aware_request / _make_request_to_broker) is replaced "
        "by scripted Deferreds; KafkaUnavailableError after all brokers failed is an input",
        "version tables outside the property's quantifier (Produce or Fetch missing, maximum below 2) are generated and compared with the "
        "model but carry no theorem: with a maximum of 0 or 1 the producer still builds format-1 messages",
        "extraction: Require Extraction ExtrOcamlBasic only; OCaml 4.13.1 ocamlopt; sample re-evaluated in Coq by vm_compute",
    ]
    ck.cov["trusted_base"] += ["correspondence harness harness/props/C04.py + codec_lib.py + vlib.py",
                               "independent grammar parsers Model/KafkaSpecReq.v and harness/kafkaspec_req.py (transcribed from the Kafka protocol guide)",
                               "extracted OCaml runner (ExtrOcamlBasic) cross-checked by vm_compute sample"]


def replay(rp):
    import json
    op = rp.get("replay_op")
    if op == "frame" or (op == "encode" and "bytes" in rp):
        data = bytes(rp["bytes"])
        req = KS.parse_request(data)
        print("bytes:", data.hex())
        print("independent grammar parse:", json.dumps(req, indent=1, default=repr)[:4000])
        if req is not None:
            print("format_matches_version:", KS.format_matches_version(req))
        print("recorded verdict:", rp.get("kind"))
        return 1
    if op == "negotiate":
        tr, _ = impl_negotiate(rp["discovery"], [tuple(o[:2]) + (([tuple(e) for e in o[2]],) if len(o) > 2 else ()) for o in rp["outcomes"]])
        print("outcomes:", rp["outcomes"])
        print("observed now [1 produce_arg produce_header produce_decoder fetch_arg fetch_header fetch_decoder magic]:", tr)
        print("recorded verdict:", rp.get("kind"))
        return 1
    if op == "race":
        xo = rp.get("x_outcome", [1])
        observed, trace = probe_overlap_race(tuple(xo[:2]) + (([tuple(e) for e in xo[2]],) if len(xo) > 2 else ()))
        print(json.dumps(trace, indent=1, default=repr)[:4000])
        print("Produce v0 carrying format-1 messages observed now:", observed)
        return 1 if observed else 0
    print(json.dumps(rp, indent=1, default=repr)[:6000])
    return 1
