# C08 - cached cluster metadata mirrors the broker's answer and self-heals when stale.
# Drives the REAL afkak KafkaClient (task.Clock, puppet endpoints, an independent little Kafka encoder/decoder on the
# network side: harness/props/client_lib.py) through seeded histories of metadata responses, requests, faults and
# resets; runs the extracted model coq/Model/ClientRun.v (ClientMeta.v + ClientRoute.v) on the same histories and
# compares the canonical traces (every step dumps topic_partitions / topics_to_brokers / topic_errors /
# metadata_error_for_topic / has_metadata_for_topic / broker clients / coordinators); restates the theorems of
# coq/Props/C08.v as monitors over the implementation's own observations.
import itertools
import json
import random

import vlib
from props import client_gen as G
from props import client_lib as CL
from props import client_overlap as O

MODEL = "clientrun"
MODULE = "Model.ClientRun"
PID = "C08"
THEOREMS = ["C08_reachable_wf", "C08_decoded_keys_unique", "C08_merge_exact", "C08_merge_frame", "C08_merge_brokers_frame",
            "C08_full_refresh_closes", "C08_invalidate", "C08_invalidate_coordinator_request",
            "C08_coordinator_failed_send_keeps_cache", "C08_reresolve", "C08_cached_no_request", "C08_lookups_ask",
            "C08_recovery_partial", "C08_recovery_routes_all_partial", "C08_stale_never_grows", "C08_fresh_iff_no_stale",
            "C08_recovery_within_budget", "C08_recovery_single_topic", "C08_recovery_delivering_errors", "C08_stale_count_meaning",
            "C08_next_connect_address", "C08_live_connection_kept"]


# ------------------------------------------------------------------ corpus (regression histories, run first)
def _meta(brokers, topics):
    return {"brokers": brokers, "topics": topics}


def corpus():
    m1 = _meta([[1, 101, 9092], [2, 102, 9092]], [[0, 0, [[0, 1, 2], [0, 0, 1]]], [0, 1, [[0, 0, 2]]]])
    m2 = _meta([[2, 202, 9093]], [[0, 0, [[0, 0, 2], [0, 1, -1]]]])            # partial refresh re-addressing broker 2
    m3 = _meta([[2, 202, 9093]], [])                                           # full refresh without broker 1
    m4 = _meta([[1, 101, 9092]], [[0, 0, [[0, 0, 1], [0, 1, 9]]]])             # leader 9 unknown: KeyError corner
    m5 = _meta([[1, 101, 9092], [1, 111, 9092]], [[5, 2, []], [0, 0, [[0, 0, 1]]], [3, 0, []]])  # duplicates: last wins
    base = {"hosts": [[101, 9092], [102, 9092]], "form": "tuples", "universe": G.UNIVERSE, "seed": 1}
    world = {"live_addrs": [[101, 9092], [102, 9092], [202, 9093]]}

    def H(ops):
        h = dict(base)
        h["ops"] = ops
        return h
    send = lambda keys, **plan: {"op": "send", "api": "offset", "group": None, "fail": False, "expect": True,
                                 "payloads": keys, "plan": dict(plan)}
    return [
        # F-C07-1 history: metadata for a (broker 2 at 102), partial refresh re-addressing broker 2, one call for both
        H([{"op": "meta", "topics": [], "plan": {"metas": [m1]}}, send([[0, 0], [1, 0]]),
           {"op": "meta", "topics": [0], "plan": {"metas": [m2]}}, send([[0, 0], [1, 0], [0, 1]], meta_default=m2)]),
        # a second, different response; then a full refresh that drops broker 1
        H([{"op": "meta", "topics": [], "plan": {"metas": [m1]}}, send([[0, 1], [0, 0]]),
           {"op": "meta", "topics": [], "plan": {"metas": [m3]}}, {"op": "meta", "topics": [], "plan": {"metas": [m1]}}]),
        # untruthful response (KeyError inside the merge), then a truthful one
        H([{"op": "meta", "topics": [0], "plan": {"metas": [m4]}}, {"op": "meta", "topics": [0], "plan": {"metas": [m1]}}]),
        # duplicated brokers / topics on the wire
        H([{"op": "meta", "topics": [], "plan": {"metas": [m5]}}, send([[0, 0]], meta_default=m5)]),
        # NotLeader, then the retry
        H([{"op": "meta", "topics": [], "plan": {"metas": [m1]}},
           send([[0, 0], [1, 0]], errs={"0:0": 6}, meta_default=m1), send([[0, 0], [1, 0]], meta_by_topic={"0": m2}, meta_default=m1)]),
        # broker 2 re-addressed to the SAME host, another port, while it has a client object; connection lost; request
        H([{"op": "meta", "topics": [], "plan": {"metas": [m1]}}, send([[0, 1], [1, 0]]),
           {"op": "meta", "topics": [1], "plan": {"metas": [_meta([[2, 102, 9093]], [[0, 1, [[0, 0, 2]]]])]}},
           {"op": "drop", "node": 2}, send([[0, 1], [1, 0]], live_addrs=[[101, 9092], [102, 9093]])]),
        # the same with the port kept and the host changed
        H([{"op": "meta", "topics": [], "plan": {"metas": [m1]}}, send([[0, 1], [1, 0]]),
           {"op": "meta", "topics": [], "plan": {"metas": [_meta([[1, 101, 9092], [2, 112, 9092]], [[0, 1, [[0, 0, 2]]]])]}},
           {"op": "drop", "node": 2}, send([[0, 1], [1, 0]], live_addrs=[[101, 9092], [112, 9092]])]),
        # a full refresh that names no broker at all must not close anything
        H([{"op": "meta", "topics": [], "plan": {"metas": [m1]}}, send([[0, 1], [0, 0]]),
           {"op": "meta", "topics": [], "plan": {"metas": [_meta([], [[0, 0, [[0, 0, -1]]]])]}}, send([[1, 0]])]),
        # failed send (silent broker) empties the cache; the retry reloads everything
        H([{"op": "meta", "topics": [], "plan": {"metas": [m1]}},
           send([[0, 0], [0, 1]], bad={"2": "silent"}, meta_default=m1), send([[0, 0], [0, 1]], meta_default=m1, **world)]),
    ]


# ------------------------------------------------------------------ exhaustive small scope (thorough tier)
def enum_small():
    """every sequence of two metadata responses over a tiny alphabet (brokers 1,2 at two addresses, topic 0 with up
    to two partitions led by -1/1/2, an erroring topic, partial and full refreshes), a request in between"""
    brokers = [[], [[1, 101, 9092]], [[1, 101, 9093], [2, 102, 9092]], [[2, 102, 9092]]]
    parts = [[], [[0, 0, 1]], [[0, 0, 2], [0, 1, -1]], [[0, 1, 1], [0, 0, 2]]]
    resps = []
    for b, p, terr, full in itertools.product(brokers, parts, [0, 5], [False, True]):
        resps.append((_meta(b, [[terr, 0, p]]), full))
    for (r1, f1), (r2, f2) in itertools.product(resps, resps):
        ops = [{"op": "meta", "topics": [] if f1 else [0], "plan": {"metas": [r1]}},
               {"op": "send", "api": "direct", "group": None, "fail": False, "expect": True, "payloads": [[0, 0], [0, 1]],
                "plan": {"meta_default": r1}},
               {"op": "meta", "topics": [] if f2 else [0], "plan": {"metas": [r2]}}]
        yield {"hosts": [[101, 9092]], "form": "tuples", "universe": G.UNIVERSE, "seed": 0, "ops": ops}


# ------------------------------------------------------------------ the check
def run(ck):
    vlib.import_repo()
    ck.build([MODEL])
    ck.props()
    # the caller-budget corollaries depend on the Producer and Consumer developments (other builders' files): soft
    # obligations, so that a half-edited file there cannot hide a concrete finding of this check
    ck.make_soft("Props/C08callers.vo")
    ck.props("C08callers", soft=True)
    rnd = random.Random(ck.seed)
    scale = 1 if ck.tier == "quick" else 20

    def run_batch(ck, label, hists):
        return G.run_batch(ck, label, hists, PID, THEOREMS)
    run_batch(ck, "corpus histories vs Model.ClientRun.run_ops", corpus())
    run_batch(ck, "metadata/request/fault histories, honest cluster vs Model.ClientRun.run_ops",
              [G.gen_history(rnd, "honest") for _ in range(400 * scale)])
    run_batch(ck, "metadata/request/fault histories, mixed environment vs Model.ClientRun.run_ops",
              [G.gen_history(rnd, "mixed") for _ in range(500 * scale)])
    run_batch(ck, "metadata/request/fault histories, hostile environment vs Model.ClientRun.run_ops",
              [G.gen_history(rnd, "chaos") for _ in range(400 * scale)])
    run_batch(ck, "failover scenarios (faults, then retries) vs Model.ClientRun.run_ops",
              [G.gen_failover(rnd) for _ in range(500 * scale)])
    O.batch(ck, rnd, 200 * scale, PID)       # overlapping calls, arbitrary interleavings: monitors only (see client_overlap.py)
    run_batch(ck, "produce with acks=0 whose broker send fails, then the next produce vs Model.ClientRun.run_ops",
              [G.gen_acks0_history(rnd) for _ in range(150 * scale)])
    run_batch(ck, "coordinator answers that re-address a known node vs Model.ClientRun.run_ops",
              [G.gen_coord_readdress_history(rnd) for _ in range(120 * scale)])
    ck.resolve_soft()
    if ck.tier == "thorough":
        run_batch(ck, "exhaustive pairs of metadata responses over a small alphabet vs Model.ClientRun.run_ops", list(enum_small()))
        ck.coqchk(["AV.Props.C08"])

    ck.cov["rule"] = ("seeded histories (random.Random(VERIF_SEED)) of 4-12 client operations against a simulated cluster of 1-5 brokers, "
                      "up to 4 topics x 1-4 partitions: full and partial metadata loads, coordinator loads, produce/offset/offset-fetch/"
                      "offset-commit/private sends, resets, connection losses, update_cluster_hosts, close, interleaved with cluster faults "
                      "(leader moves, broker deaths, restarts at new addresses, new brokers, coordinator moves) and, in the mixed/hostile "
                      "flavours, silent brokers, refused or unanswered connects, bootstrap failures, broker error codes 1/3/5/6/7/14/15/16, "
                      "reversed/short/extra/empty answers, stale, duplicated, empty and untruthful metadata (leader outside the response). "
                      "Failover scenarios end with three retries after the last fault. A history is non-trivial if at least one metadata "
                      "response was merged and one request reached the fan-out; distinct = distinct canonical case lines.")
    ck.assumptions += [
        "hand-written Gallina models Model/ClientMeta.v, Model/ClientRoute.v stand for afkak/client.py reset_*, close, load_metadata_for_topics, _merge_topic_metadata, load_coordinator_for_group, send_{produce,fetch,offset,offset_fetch,offset_commit}_request, _handle_responses, _get_brokerclient, _update_brokers, resolution and the request senders (tie = this run's differential correspondence, not proof)",
        "one client operation at a time: overlapping operations, _coordinator_fetches sharing, request time-outs as such (C11) and close() during a fan-out (C20) are outside the model; a time-out is one way of 'the request failed'",
        "the reconnect loop of a broker client whose connect is refused or unanswered (brokerclient.py:414-461) is environment: the driver lets the connection come up after the request was given up and, at an address where no broker listens, resets it at once (reported to the model as a connection loss)",
        "partition_meta, replicas/isr and the partition error code are not modelled (nothing in the property reads them); the client is built with enable_protocol_version_discovery=False and the default disconnect_on_timeout",
        "a failed send through _send_request_to_coordinator does not invalidate the cached coordinator (C08_coordinator_failed_send_keeps_cache: documented deviation, compensated by _group.py rejoin_after_error)",
        "C08_recovery_within_budget premises (per attempt, after the last fault): fixed topology, truthful lookups that get as far as sending, every request answered by its node with 0 / NotLeader truthfully (no failed sends: a re-addressed broker's old connection is gone), distinct payload keys; the composition with the Producer/Consumer retry loops and budgets (C09_attempt_bound, C14_attempt_limit) is not mechanised; the failover monitor retries the client call itself and counts failed sends separately (at most one, it empties the cache)",
        "the network side (request parser / response encoder in harness/props/client_lib.py) was written from the Kafka protocol guide, not from afkak's codec",
        "close() called while a lookup of the running operation is pending: client.py:383-389 fail the pending request synchronously, the operation's continuation runs inside close() and reads the cache BEFORE reset_all_metadata() (391); the model does the same (ClientMeta.close_early during the operation, close_finish after it)",
        "overlapping operations and arbitrary interleavings (client_overlap.py: 2-4 calls issued before anything is answered, one pending event delivered at a time - accept/refuse a connect, answer one request from the cluster state at that moment, kill a connection with requests in flight (re-send), fire a timer - while leaders move and brokers die/restart) are OUTSIDE the Gallina model: monitors only (completion, no KeyError/unknown exception, no cross-talk, per-call order and accounting, routing against the metadata answers merged since the call was issued, cache = last merged answer at the end, closing)",
        "extraction: ExtrOcamlBasic only; Z stays a Coq datatype; sample of the case lines re-evaluated in Coq by vm_compute",
    ]
    ck.cov["trusted_base"] += ["correspondence harness harness/props/C08.py + client_gen.py + client_lib.py + harness/simnet.py + harness/vlib.py",
                               "extracted OCaml runner run_clientrun (ExtrOcamlBasic) cross-checked by vm_compute sample",
                               "Twisted Deferred/inlineCallbacks/DeferredList semantics (exercised, not verified)"]


def replay(rp):
    if rp.get("replay_op") == "overlap":
        return O.replay(rp)
    return G.replay_history(rp, PID)
