# C04 - the request STREAM as a broker receives it.
#
# The REAL KafkaClient, _KafkaBrokerClient, KafkaProtocol / bootstrap protocol, Producer, Consumer and ConsumerGroup
# run over harness/simnet.py (in-memory endpoints, virtual clock).  Nothing of afkak is patched except the clock
# inside afkak.kafkacodec (codec_lib.Recorder, for predictable message timestamps).  The peer is a small simulated
# broker built ONLY from the independent grammar: it cuts the bytes written to each transport into frames with its own
# length-prefix reader, parses every frame with harness/kafkaspec_req.py and answers with responses built by
# harness/kafkaspec_resp.py.  Every frame is then compared FIELD BY FIELD with what the caller configured
# (client id, acks, timeout, topic, partition, offsets, group, generation, member id, metadata, ...).
import struct

import kafkaspec_req as KS
import kafkaspec_resp as KR
import simnet

from props import codec_lib as CL

FULL_TABLE = [(0, 0, 7), (1, 0, 10), (2, 0, 4), (3, 0, 7), (8, 0, 6), (9, 0, 5), (10, 0, 2), (11, 0, 4), (12, 0, 2),
              (13, 0, 2), (14, 0, 2), (18, 0, 2)]


class FrameReader:
    """independent reader of the Kafka framing: 4-byte big-endian length, then that many bytes"""

    def __init__(self):
        self.buf = b""
        self.seen = 0

    def feed(self, transport):
        out = []
        for chunk in transport.written[self.seen:]:
            self.buf += chunk
        self.seen = len(transport.written)
        while len(self.buf) >= 4:
            n = int.from_bytes(self.buf[:4], "big")
            if len(self.buf) < 4 + n:
                break
            out.append(self.buf[4:4 + n])
            self.buf = self.buf[4 + n:]
        return out


class SimBroker:
    """one broker (node 1 at broker1:9092): topic logs, committed offsets, one-member groups"""

    def __init__(self, api_mode, table=FULL_TABLE, partitions=2):
        self.api_mode = api_mode          # "table" | "error35" | "close" (pre-0.10: drops the connection)
        self.table = table
        self.nparts = partitions
        self.topics = {}                  # name(bytes) -> number of partitions
        self.logs = {}                    # (topic, partition) -> [(magic, ts, key, value)]
        self.committed = {}               # (group, topic, partition) -> (offset, metadata)
        self.groups = {}                  # group -> dict(generation, member, protocol, metadata, assignment)
        self.held = []                    # fetches with nothing to return (long poll): never answered
        self.closed_on = set()

    def topic(self, name):
        if name not in self.topics:
            self.topics[name] = self.nparts
            for p in range(self.nparts):
                self.logs.setdefault((name, p), [])
        return self.topics[name]

    def answer(self, req):
        """-> response bytes | None (no response: acks=0, held fetch) | "close" """
        b, corr, api = req["body"], req["correlation"], req["body"]["api"]
        if api == "ApiVersions":
            if self.api_mode == "close":
                # a pre-0.10 broker drops the connection on the unknown API key; a broker client that reconnects and
                # re-sends the same request is then left without an answer (its request timer decides)
                if corr in self.closed_on:
                    return None
                self.closed_on.add(corr)
                return "close"
            if self.api_mode == "error35":
                return KR.enc_apiversions((corr, 35, []))
            return KR.enc_apiversions((corr, 0, self.table))
        if api == "Metadata":
            names = b["topics"] or sorted(self.topics)
            ts = [(0, n, [(0, p, 1, [1], [1]) for p in range(self.topic(n))]) for n in names]
            return KR.enc_metadata((corr, [(1, b"broker1", 9092)], ts))
        if api == "FindCoordinator":
            return KR.enc_coordinator((corr, 0, 1, b"broker1", 9092))
        if api == "Produce":
            out = []
            for t, parts in b["topics"]:
                self.topic(t)
                ps = []
                for p, msgs in parts:
                    lg = self.logs.setdefault((t, p), [])
                    base = len(lg)
                    for m in msgs:
                        for x in (m["inner"] if m["wrapper"] else [m["msg"]]):
                            lg.append((x["magic"], x["ts"], x["key"], x["value"]))
                    ps.append((p, 0, base, -1))
                out.append((t, ps))
            if b["acks"] == 0:
                return None
            return KR.enc_produce(req["version"], (corr, out, 0))
        if api == "Fetch":
            out, any_data = [], False
            for t, parts in b["topics"]:
                ps = []
                for p, off, _mb in parts:
                    lg = self.logs.get((t, p), [])
                    entries = [(o, (lg[o][0], 0, lg[o][1] if lg[o][0] == 1 else 0, lg[o][2], lg[o][3]))
                               for o in range(max(off, 0), len(lg))]
                    any_data = any_data or bool(entries)
                    ps.append((p, 0, len(lg), KR.enc_kset(entries)))
                out.append((t, ps))
            if not any_data:
                self.held.append(req)
                return None
            return KR.enc_fetch(req["version"], (corr, 0, out))
        if api == "ListOffsets":
            out = [(t, [(p, 0, [0 if tm == -2 else len(self.logs.get((t, p), []))]) for p, tm, _n in parts])
                   for t, parts in b["topics"]]
            return KR.enc_offsets((corr, out))
        if api == "OffsetCommit":
            for t, parts in b["topics"]:
                for p, off, _ts, md in parts:
                    self.committed[(b["group"], t, p)] = (off, md)
            return KR.enc_commit((corr, [(t, [(p[0], 0) for p in parts]) for t, parts in b["topics"]]))
        if api == "OffsetFetch":
            out = []
            for t, parts in b["topics"]:
                ps = []
                for p in parts:
                    off, md = self.committed.get((b["group"], t, p), (-1, b""))
                    ps.append((p, off, md if md is not None else b"", 0))
                out.append((t, ps))
            return KR.enc_ofetch((corr, out))
        if api == "JoinGroup":
            g = self.groups.setdefault(b["group"], {"generation": 0})
            g["generation"] += 1
            g["member"] = b["member"] or b"member-1-of-" + b["group"]
            g["protocol"], g["metadata"] = b["protocols"][0]
            return KR.enc_join((corr, 0, g["generation"], g["protocol"], g["member"], g["member"],
                                [(g["member"], g["metadata"])]))
        if api == "SyncGroup":
            g = self.groups[b["group"]]
            for m, a in b["assignments"]:
                if m == g["member"]:
                    g["assignment"] = a
            return KR.enc_sync((corr, 0, g.get("assignment", b"")))
        if api in ("Heartbeat", "LeaveGroup"):
            return KR.enc_errcode((corr, 0))
        raise ValueError(api)


class Stream:
    def __init__(self, discovery, api_mode, client_id):
        from afkak.client import KafkaClient
        self.log = []
        self.clock = simnet.SimClock(self.log)
        self.net = simnet.SimNet(self.log)
        self.broker = SimBroker(api_mode)
        self.client = KafkaClient("broker1:9092", clientId=client_id, reactor=self.clock, endpoint_factory=self.net,
                                  timeout=5000, enable_protocol_version_discovery=discovery)
        self.readers = {}
        self.frames = []          # (conn id, body bytes, parsed or None) in arrival order
        self.unparsed = []

    def pump(self, rounds=200):
        """let the simulated network and broker react until nothing moves"""
        for _ in range(rounds):
            moved = False
            for a in self.net.pending():
                a.accept()
                moved = True
            for t in list(self.net.transports):
                if not t.live:
                    continue
                rd = self.readers.setdefault(t.conn_id, FrameReader())
                for body in rd.feed(t):
                    moved = True
                    req = KS.parse_request(body)
                    self.frames.append((t.conn_id, body, req))
                    if req is None:
                        self.unparsed.append(body)
                        continue
                    resp = self.broker.answer(req)
                    if resp == "close":
                        t.report_lost()
                        break
                    if resp is not None and t.live:
                        t.deliver(simnet.frame(resp))
                if t.live and t.disconnecting:
                    t.report_lost()
                    moved = True
            if not moved:
                return
        raise RuntimeError("simulated network does not come to rest; last frames: %r" %
                           [(c, r and (r["body"]["api"], r["correlation"])) for c, _b, r in self.frames[-8:]])

    def run_for(self, seconds, step=0.5):
        t = 0.0
        while t < seconds:
            self.clock.advance(step)
            self.pump()
            t += step


def run_stream(rnd, nice, discovery, api_mode, codec_id):
    """One history: Producer batch -> standalone Consumer (earliest, commits) -> ConsumerGroup (join, sync, fetch of
    the committed offset, heartbeats, leave) -> close.  Returns (frames, problems, info)."""
    from afkak import ConsumerGroup
    from afkak.common import OFFSET_EARLIEST
    from afkak.consumer import Consumer
    from afkak.producer import Producer
    cid = rnd.choice(["afkak-client", nice(rnd)])
    cidb = cid.encode("utf-8")
    st = Stream(discovery, api_mode, cid)
    problems = []
    topic = nice(rnd, 1, 12)
    tb = topic.encode("ascii")
    groups = []
    for i in range(rnd.randint(2, 5)):
        vals = [rnd.choice([b"", b"v%d" % i, b"x" * rnd.randint(1, 20)]) for _ in range(rnd.randint(1, 2))]
        groups.append((topic, rnd.choice([0, 1]), rnd.choice([None, b"", b"k%d" % i]), vals))
    plan = iter([p for _t, p, _k, _v in groups])

    class ScriptedPartitioner(object):
        def __init__(self, topic, partitions):
            pass

        def partition(self, key, partitions):
            return next(plan)
    acks = rnd.choice([1, -1, 1, 2])
    ack_timeout = rnd.choice([1000, 250, 29999])
    total = sum(len(v) for _t, _p, _k, v in groups)
    base = rnd.choice([1600000000000, 1234567890123, 7])
    resolved_table = discovery and api_mode == "table"
    version, magic = (2, 1) if resolved_table else (0, 0)
    delivered = {}               # partition -> [(offset, key, value)] handed to a processor
    info = {"client_id": cid, "topic": topic, "groups": repr(groups), "acks": acks, "ack_timeout": ack_timeout, "codec": codec_id,
            "discovery": discovery, "api_mode": api_mode, "version": version}

    def processor(consumer, msgs):
        for m in msgs:
            delivered.setdefault(consumer.partition, []).append((m.offset, m.message.key, m.message.value))

    fetch_cfg = {"fetch_size_bytes": rnd.choice([1, 4096, 65536]), "fetch_max_wait_time": rnd.choice([100, 250, 1000]),
                 "buffer_size": rnd.choice([131072, 200000])}
    with CL.Recorder(base, 1):
        # ---- producer
        prod = Producer(st.client, partitioner_class=ScriptedPartitioner, req_acks=acks, ack_timeout=ack_timeout,
                        codec=(codec_id or None), batch_send=True, batch_every_n=total, batch_every_b=0, batch_every_t=0)
        sends = [prod.send_messages(t, key=k, msgs=list(v)) for t, _p, k, v in groups]
        for d in sends:
            d.addErrback(lambda f: problems.append("send_messages failed: %r" % (f.value,)))
        st.pump()
        if api_mode == "close":
            st.run_for(20)           # three lookups die with the connection; retry timers in between
        n_prod = len(st.frames)
        # ---- standalone consumer on partition 0 with offset commits
        cgroup = nice(rnd)
        cmeta = rnd.choice([None, b"", b"c-meta"])
        cons = Consumer(st.client, topic, 0, processor, consumer_group=cgroup, commit_metadata=cmeta,
                        auto_commit_every_n=None, auto_commit_every_ms=None, **fetch_cfg)
        cons.start(OFFSET_EARLIEST).addErrback(lambda f: problems.append("consumer failed: %r" % (f.value,)))
        st.pump()
        d = cons.commit()
        if d is not None:
            d.addErrback(lambda f: None)
        st.pump()
        cons.stop()
        st.pump()
        n_cons = len(st.frames)
        # ---- consumer group
        ggroup = nice(rnd)
        session, hb = rnd.choice([6000, 30000]), rnd.choice([1000, 3000])
        grp = ConsumerGroup(st.client, ggroup, [topic], processor, session_timeout_ms=session, heartbeat_interval_ms=hb,
                            consumer_kwargs=dict(auto_offset_reset=OFFSET_EARLIEST, auto_commit_every_n=None,
                                                 auto_commit_every_ms=None, **fetch_cfg))
        grp.start().addErrback(lambda f: problems.append("group failed: %r" % (f.value,)))
        st.pump()
        st.run_for(2 * hb / 1000.0 + 1)
        grp.stop()
        st.pump()
        prod.stop()
        st.client.close()
        st.pump()
    info.update({"consumer_group": cgroup, "commit_metadata": repr(cmeta), "group": ggroup, "session": session,
                 "fetch": fetch_cfg})
    # ------------------------------------------------------------------ field-by-field comparison
    from props.C04 import expected_produce, strip_wrapper_values
    by_api = {}
    corrs = []
    for k, (conn, body, req) in enumerate(st.frames):
        if req is None:
            problems.append("frame %d is not a request of the Kafka grammar" % k)
            continue
        by_api.setdefault(req["body"]["api"], []).append((k, req))
        corrs.append(req["correlation"])
        if req["client"] != cidb:
            problems.append("frame %d (%s): client id %r, configured %r" % (k, req["body"]["api"], req["client"], cidb))

    def expect(api, k, got, want, what):
        if got != want:
            problems.append("frame %d (%s): %s is %r, the caller supplied %r" % (k, api, what, got, want))

    # produce
    pf = by_api.get("Produce", [])
    if len(pf) != 1:
        problems.append("expected exactly one Produce request, saw %d" % len(pf))
    for k, req in pf:
        want = expected_produce(groups, codec_id, magic, base, version, req["correlation"], cidb, acks, ack_timeout)
        if strip_wrapper_values(req) != want:
            problems.append("frame %d (Produce) does not parse to what the caller supplied: %r  expected %r" % (k, req, want))
        elif not KS.format_matches_version(req):
            problems.append("frame %d (Produce): message format does not match the header version" % k)
    # api versions
    for k, req in by_api.get("ApiVersions", []):
        expect("ApiVersions", k, (req["key"], req["version"]), (18, 0), "key/version")
    if discovery and not by_api.get("ApiVersions"):
        problems.append("discovery enabled but no ApiVersions request was sent")
    if not discovery and by_api.get("ApiVersions"):
        problems.append("discovery disabled but an ApiVersions request was sent")
    # fetch: standalone consumer = partition 0; group consumers = both partitions
    for k, req in by_api.get("Fetch", []):
        b = req["body"]
        expect("Fetch", k, req["version"], version, "header version")
        expect("Fetch", k, (b["replica"], b["max_wait"], b["min_bytes"]), (-1, fetch_cfg["fetch_max_wait_time"], fetch_cfg["fetch_size_bytes"]),
               "replica/max_wait/min_bytes")
        for t, parts in b["topics"]:
            expect("Fetch", k, t, tb, "topic")
            for p, off, mb in parts:
                expect("Fetch", k, mb, fetch_cfg["buffer_size"], "max_bytes")
                n = len(st.broker.logs.get((tb, p), []))
                if p not in (0, 1) or off not in (0, n):
                    problems.append("frame %d (Fetch): partition %r offset %r (log has %d messages)" % (k, p, off, n))
    if not by_api.get("Fetch"):
        problems.append("no Fetch request")
    for k, req in by_api.get("ListOffsets", []):
        b = req["body"]
        expect("ListOffsets", k, b["replica"], -1, "replica")
        for t, parts in b["topics"]:
            expect("ListOffsets", k, t, tb, "topic")
            for p, tm, n in parts:
                expect("ListOffsets", k, (tm, n), (OFFSET_EARLIEST, 1), "time/max_offsets")
    # commits: the standalone consumer commits (-1, "") ; group consumers commit with the generation and member id
    gstate = st.broker.groups.get(ggroup.encode(), {})
    ncommit = {cgroup: 0, ggroup: 0}
    for k, req in by_api.get("OffsetCommit", []):
        b = req["body"]
        if k < n_cons:
            expect("OffsetCommit", k, (b["group"], b["generation"], b["member"]), (cgroup.encode(), -1, b""), "group/generation/member")
            ncommit[cgroup] += 1
            want_md = cmeta
        else:
            expect("OffsetCommit", k, (b["group"], b["generation"], b["member"]),
                   (ggroup.encode(), gstate.get("generation"), gstate.get("member")), "group/generation/member")
            ncommit[ggroup] += 1
            want_md = None
        for t, parts in b["topics"]:
            expect("OffsetCommit", k, t, tb, "topic")
            for p, off, ts, md in parts:
                n = len(st.broker.logs.get((tb, p), []))
                expect("OffsetCommit", k, (off, ts, md), (n - 1, -1, want_md), "offset/timestamp/metadata (partition %d)" % p)
    n0 = len(st.broker.logs.get((tb, 0), []))
    if n0 and not ncommit[cgroup]:
        problems.append("the standalone consumer processed messages but sent no OffsetCommit")
    for k, req in by_api.get("OffsetFetch", []):
        b = req["body"]
        expect("OffsetFetch", k, b["group"], ggroup.encode(), "group")
        for t, parts in b["topics"]:
            expect("OffsetFetch", k, t, tb, "topic")
    # group membership
    jf = by_api.get("JoinGroup", [])
    if len(jf) != 1:
        problems.append("expected one JoinGroup request, saw %d" % len(jf))
    for k, req in jf:
        b = req["body"]
        expect("JoinGroup", k, (b["group"], b["session_timeout"], b["member"], b["protocol_type"]),
               (ggroup.encode(), session, b"", b"consumer"), "group/session/member/protocol type")
        for name, md in b["protocols"]:
            sub = KS.parse_subscription(md)
            if sub is None or sub[1] != [tb]:
                problems.append("frame %d (JoinGroup): protocol %r metadata is not a Subscription of [%r]: %r" % (k, name, tb, sub))
        if not b["protocols"]:
            problems.append("frame %d (JoinGroup): no protocols" % k)
    for k, req in by_api.get("SyncGroup", []):
        b = req["body"]
        expect("SyncGroup", k, (b["group"], b["generation"], b["member"]), (ggroup.encode(), gstate.get("generation"), gstate.get("member")),
               "group/generation/member")
        for m, a in b["assignments"]:
            asg = KS.parse_assignment(a)
            if m != gstate.get("member") or asg is None or [(t, sorted(ps)) for t, ps in asg[1]] != [(tb, [0, 1])]:
                problems.append("frame %d (SyncGroup): assignment for %r is not {%r: [0, 1]}: %r" % (k, m, tb, asg))
    if len(by_api.get("SyncGroup", [])) != 1:
        problems.append("expected one SyncGroup request, saw %d" % len(by_api.get("SyncGroup", [])))
    for api in ("Heartbeat", "LeaveGroup"):
        for k, req in by_api.get(api, []):
            b = req["body"]
            expect(api, k, (b["group"], b.get("generation", gstate.get("generation")), b["member"]),
                   (ggroup.encode(), gstate.get("generation"), gstate.get("member")), "group/generation/member")
        if not by_api.get(api):
            problems.append("no %s request" % api)
    for k, req in by_api.get("FindCoordinator", []):
        if req["body"]["group"] not in (cgroup.encode(), ggroup.encode()):
            problems.append("frame %d (FindCoordinator): group %r" % (k, req["body"]["group"]))
    for k, req in by_api.get("Metadata", []):
        if any(t != tb for t in req["body"]["topics"]):
            problems.append("frame %d (Metadata): topics %r" % (k, req["body"]["topics"]))
    # every message produced reached a processor exactly once per consumer run, in order
    for p in (0, 1):
        lg = [(o, m[2], m[3]) for o, m in enumerate(st.broker.logs.get((tb, p), []))]
        seen = delivered.get(p, [])
        want = lg + lg if p == 0 else lg          # partition 0: the standalone consumer, then the group's consumer (other group id)
        if seen != want:
            problems.append("partition %d: processors saw %r, the log is %r" % (p, seen[:6], lg[:6]))
    info["apis"] = {a: len(v) for a, v in by_api.items()}
    return [(body, req) for _c, body, req in st.frames], problems, info
