# Shared by C07 and C08: OVERLAPPING client operations and arbitrary interleavings of answers, connection losses and
# timers ("issue now, pump later").  Two to four public calls of the REAL KafkaClient are started before anything is
# answered (more may be issued in the middle); a seeded scheduler then delivers ONE pending event at a time - accept /
# refuse a connection attempt, answer one request honestly from the state of the simulated cluster AT THAT MOMENT,
# kill a connection with requests in flight (the broker client reconnects and re-sends), fire the next timer (request
# time-outs, reconnect delays) - while the cluster keeps changing (leaders move, brokers die or restart elsewhere).
# The one-operation-at-a-time Gallina model cannot follow such histories, so only monitors run here; they restate what
# C07/C08 promise per call and for the cache:
#   completion      every call's Deferred fires once the network is drained
#   sane result     no KeyError / TypeError / AttributeError / unknown exception reaches a caller
#   no cross-talk   a call only gets responses carrying its own tags
#   accounting      honest answers: success = one response per payload in payload order; FailedPayloadsError = responses
#                   (payload order) + failed payloads partition the payloads
#   routing         every payload of a call travels to exactly one node (re-sent only to the same node after a
#                   connection loss), and that node was named leader of its partition by a metadata answer the client
#                   merged no earlier than the last merged answer for that topic before the call was issued
#   cache           at the end every cached leader is the one the LAST merged metadata answer for its topic gave
#   closing         no connection is left open for a broker client the client no longer owns
import random
import struct

import simnet
from props import client_lib as CL
from props import client_gen as G

TIMEOUT = CL.TIMEOUT_MS / 1000.0
BAD_RESULTS = ([4, 16], [4, 17], [5])


class OverlapSim(CL.Sim):
    def __init__(self, world, hosts, seed):
        CL.Sim.__init__(self, hosts, G.UNIVERSE, seed)
        self.W = world
        self.sched = random.Random(seed + 1)
        self.calls = []                 # {"id","op","res":[],"tags","keys","issued":event index}
        self.frames = []                # unanswered requests: {"conn","tr","body","node","t":clock time}
        self.events = 0
        self.told_hist = {}             # (t,p) -> [(event index, leader)]   leader None: partition not / no longer listed
        self.last_answer = {}           # topic -> {p: leader} of the last MERGED metadata answer
        self.sent = []                  # (event index, call id, node, [tags], correlation id)
        self.bad = []
        self.stats = {}

    def hist(self, k, n=1):
        self.stats[k] = self.stats.get(k, 0) + n

    # ------------------------------------------------------------ issuing calls
    def issue(self, op):
        from afkak import common as C
        c = self.client
        cid = len(self.calls)
        base = 100 * (cid + 1)
        keys = [tuple(k) for k in op.get("payloads", [])]
        tags = [base + i for i in range(len(keys))]
        call = {"id": cid, "op": op, "res": [], "tags": tags, "keys": keys, "issued": self.events}
        self.calls.append(call)
        kind = op["op"]
        try:
            if kind == "meta":
                d = c.load_metadata_for_topics(*[CL.topic_name(t) for t in op["topics"]])
            elif kind == "coord":
                d = c.load_coordinator_for_group(CL.group_name(op["group"], op.get("group_form")))
            elif op["api"] == "direct":
                pls = [CL.SimplePayload(CL.topic_name(t), p, tg) for (t, p), tg in zip(keys, tags)]
                d = c._send_broker_aware_request(pls, CL.simple_encoder, CL.simple_decoder)
            elif op["api"] == "fetch":
                pls = [C.FetchRequest(CL.topic_name(t), p, tg, 1024) for (t, p), tg in zip(keys, tags)]
                d = c.send_fetch_request(pls, fail_on_error=op["fail"], max_wait_time=100)
            elif op["api"] == "offset":
                pls = [C.OffsetRequest(CL.topic_name(t), p, tg, 1) for (t, p), tg in zip(keys, tags)]
                d = c.send_offset_request(pls, fail_on_error=op["fail"])
            elif op["api"] == "offset_commit":
                pls = [C.OffsetCommitRequest(CL.topic_name(t), p, tg, 0, b"") for (t, p), tg in zip(keys, tags)]
                d = c.send_offset_commit_request(CL.group_name(op["group"], op.get("group_form")), pls, fail_on_error=op["fail"])
            else:
                raise ValueError(op)
        except Exception as e:          # a synchronous exception of a public call
            from twisted.python.failure import Failure
            call["res"].append(Failure(e))
            return call
        d.addBoth(call["res"].append)
        return call

    # ------------------------------------------------------------ the network side
    def live_addr(self, attempt):
        return (CL.host_id(attempt.host), attempt.port) in set(self.W.brokers.values())

    def node_at(self, addr):
        for n, a in self.W.brokers.items():
            if a == addr:
                return n
        return None

    def collect(self):
        for ev in self.scan():
            if ev[0] == "frame":
                a = self.conn_attempt(ev[1])
                self.frames.append({"conn": ev[1], "tr": a.transport, "body": ev[2], "node": self.node_of(a),
                                    "addr": (CL.host_id(a.host), a.port), "t": self.clock.seconds()})
                self.note_sent(self.frames[-1])

    def note_sent(self, fr):
        key, _v, corr, r = CL.parse_header(fr["body"])
        if key in (3, 10):
            return
        asked, _g = CL.dec_data_request(key, r)
        by_call = {}
        for (_t, _p, tg) in asked:
            cid = tg // 100 - 1 if tg is not None else None
            by_call.setdefault(cid, []).append(tg)
        for cid, tgs in by_call.items():
            self.sent.append((self.events, cid, fr["node"], tgs, corr))
        if len(by_call) > 1:
            self.bad.append(("C07_routing", "one request carries payloads of several calls", sorted(by_call)))

    def told(self, k, leader):
        self.told_hist.setdefault(k, []).append((self.events, leader))

    def answer(self, fr):
        """answer one request honestly from the state of the cluster now"""
        tr = fr["tr"]
        if not tr.live:
            return
        key, _v, corr, r = CL.parse_header(fr["body"])
        W = self.W
        here = self.node_at(fr["addr"])          # who listens at that address now
        if here is None:
            tr.report_lost()                     # nobody: the connection is reset
            self.hist("answer_conn_reset")
            return
        if key == 3:
            asked = CL.dec_metadata_request(r)
            raw = W.raw_meta(asked)
            before = self.view()
            tr.deliver(simnet.frame(CL.enc_metadata_response(corr, raw)))
            after = self.view()
            brokers, topics = G.decode_raw(raw)
            # was the answer merged (not ignored because its request had timed out)?  Judged on what the answer LISTS:
            # topic error, partition list and the leader of every listed partition; entries for partitions it does not
            # list are deliberately not looked at here - they are the cache monitor's business at the end
            merged = bool(topics) and all(
                after["terrs"].get(t) == te and after["tparts"].get(t) == (sorted(ps) if ps else None) and
                all(after["t2b"].get((t, p), "absent") == (None if l == -1 else (l,) + tuple(brokers[l])) for p, l in ps.items())
                for t, (te, ps) in topics.items())
            if merged:
                self.hist("metadata_answers_merged")
                for t, (_te, ps) in topics.items():
                    for k in [k for k in self.told_hist if k[0] == t and k[1] not in ps]:
                        self.told(k, None)
                    for p, l in ps.items():
                        self.told((t, p), l)
                    self.last_answer[t] = (self.events, dict(ps))
            else:
                self.hist("metadata_answers_ignored_or_late")
                for t in topics:                 # unknown whether / what was merged: stop judging that topic
                    self.last_answer[t] = (self.events, None)
                    for k in [k for k in self.told_hist if k[0] == t]:
                        self.told(k, "any")
        elif key == 10:
            g = CL.dec_coordinator_request(r)
            n = W.coord(g)
            tr.deliver(simnet.frame(CL.enc_coordinator_response(corr, (0, n) + tuple(W.brokers[n]))))
        else:
            asked, grp = CL.dec_data_request(key, r)
            node = fr["node"] if fr["node"] is not None else here
            rs = []
            for (t, p, tg) in asked:
                if grp is not None and grp >= 0:
                    e = 0 if W.coord(grp) == node else 16
                elif t not in W.topics or p not in W.topics[t]:
                    e = 3
                else:
                    e = 0 if W.topics[t][p] == node else 6
                rs.append((t, p, e, tg if tg is not None else 0))
            tr.deliver(simnet.frame(CL.enc_data_response(key, corr, rs)))
            self.hist("data_answers")

    def retire_connected(self):
        """a broker the client is CONNECTED to leaves the cluster while its process keeps listening; a full refresh
        follows: only the client can (and must) give that connection up"""
        W = self.W
        cands = [n for n, bc in (self.client.clients or {}).items() if bc.connected() and n in W.brokers and n != W.anchor]
        if not cands or len(W.brokers) <= 1:
            return False
        n = self.sched.choice(sorted(cands))
        del W.brokers[n]
        for t in W.topics:
            for p in W.topics[t]:
                if W.topics[t][p] == n:
                    W.topics[t][p] = self.sched.choice(sorted(W.brokers))
        for g in list(W.coords):
            if W.coords[g] == n:
                W.coords[g] = self.sched.choice(sorted(W.brokers))
        self.hist("connected_broker_retired")
        if not self.closed:
            self.issue({"op": "meta", "topics": []})
        return True

    def fault(self):
        W = self.W
        if self.sched.random() < 0.25 and self.retire_connected():
            return
        name, dropped = W.fault(extended=self.sched.random() < 0.5)
        self.hist("fault_" + name)
        if self.sched.random() < 0.5 and not self.closed:
            self.issue({"op": "meta", "topics": []})        # somebody refreshes the whole metadata soon after
        # the connections of a broker that died or restarted elsewhere die with it, requests in flight or not
        live = set(W.brokers.values())
        if name == "kill_broker" and self.sched.random() < 0.5:
            self.hist("broker_retired_but_still_listening")
            return        # the broker left the cluster but its process is still up: the CLIENT must give the connection up
        for a in self.net.attempts:
            if a.transport is not None and a.transport.live and (CL.host_id(a.host), a.port) not in live:
                if any(f["tr"] is a.transport for f in self.frames):
                    self.hist("connection_lost_with_request_in_flight")
                a.transport.report_lost()

    def step(self, drain=False):
        """one scheduler step; -> False when nothing is left to do"""
        self.collect()
        self.frames = [f for f in self.frames if f["tr"].live]
        pend = self.net.pending()
        timers = self.clock.pending()
        choices = []
        if pend:
            choices += ["connect"] * 3
        if self.frames:
            choices += ["answer"] * 4
            if not drain:
                choices += ["lose"]
        if timers and not (pend or self.frames):
            choices += ["timer"] * 3
        elif timers and not drain and self.sched.random() < 0.3:
            choices += ["timer"]
        if not drain and self.sched.random() < 0.09:
            choices += ["fault"] * 2
        if not choices:
            return False
        what = self.sched.choice(choices)
        self.events += 1
        if what == "connect":
            a = self.sched.choice(pend)
            if self.live_addr(a):
                a.accept()
            else:
                a.fail()
                self.hist("connect_refused")
        elif what == "answer":
            fr = self.frames.pop(self.sched.randrange(len(self.frames)))
            self.answer(fr)
        elif what == "lose":
            fr = self.sched.choice(self.frames)
            if fr["tr"].live:
                self.hist("connection_lost_with_request_in_flight")
                fr["tr"].report_lost()
        elif what == "timer":
            self.clock.fire_next()
            self.hist("timer_fired")
        elif what == "fault":
            self.fault()
        self.settle()
        return True

    # ------------------------------------------------------------ verdicts
    def leaders_allowed(self, k, call):
        """leaders a metadata answer gave for k that the client may have used for this call: the value in force when the
        call was issued and every later one until it completed"""
        hist = self.told_hist.get(k, [])
        before = [l for (i, l) in hist if i <= call["issued"]]
        out = set(before[-1:]) | set(l for (i, l) in hist if i > call["issued"])
        return out

    def verdicts(self):
        from twisted.python.failure import Failure
        from afkak import common as C
        bad = self.bad
        for call in self.calls:
            op = call["op"]
            if not call["res"]:
                bad.append(("completion", "the call never completed although the network was drained", op["op"], op.get("api")))
                continue
            res = call["res"][0]
            if op["op"] != "send":
                if isinstance(res, Failure) and (CL.classify_failure(res) in BAD_RESULTS or CL.classify_failure(res)[0] == -60):
                    bad.append(("C07_no_keyerror", "unexpected exception from a lookup", repr(res.value)[:200]))
                continue
            keys, tags = call["keys"], call["tags"]
            responses, failed = None, None
            if isinstance(res, Failure):
                if isinstance(res.value, C.FailedPayloadsError):
                    responses = list(res.value.responses)
                    failed = [p for p, _f in res.value.failed_payloads]
                else:
                    cl = CL.classify_failure(res)
                    if cl in BAD_RESULTS or cl[0] == -60:
                        bad.append(("C07_no_keyerror", "unexpected exception reached the caller", repr(res.value)[:200]))
                    continue
            else:
                responses = list(res)

            def rtag(r):
                if op["api"] == "direct":
                    return r.tag
                if op["api"] == "fetch":
                    return r.highwaterMark
                if op["api"] == "offset":
                    return r.offsets[0] if r.offsets else -1
                return None
            rkeys = [(CL.topic_id(r.topic), r.partition) for r in responses]
            if op["api"] != "offset_commit":
                alien = [rtag(r) for r in responses if rtag(r) not in tags]
                if alien:
                    bad.append(("C07_order", "a call received responses that belong to another call (cross-talk)", alien, tags))
            if len(set(keys)) == len(keys):
                if failed is None:
                    if rkeys != keys:
                        bad.append(("C07_order", "success, yet not one response per payload in payload order", rkeys, keys))
                else:
                    fkeys = [(CL.topic_id(p.topic), p.partition) for p in failed]
                    if sorted(rkeys + fkeys) != sorted(keys):
                        bad.append(("C07_accounting", "responses + failed payloads do not partition the payloads", rkeys, fkeys, keys))
                    if [k for k in keys if k in rkeys] != rkeys:
                        bad.append(("C07_accounting", "responses not in payload order", rkeys, keys))
            # routing
            nodes_of = {}
            for (_ev, cid, node, tgs, _corr) in self.sent:
                if cid == call["id"]:
                    for tg in tgs:
                        nodes_of.setdefault(tg, set()).add(node)
            for tg, k in zip(tags, keys):
                ns = nodes_of.get(tg, set())
                if len(ns) > 1:
                    bad.append(("C07_routing", "one payload of one call was sent to two nodes", list(k), sorted(ns)))
                if op.get("group") is None:
                    allowed = self.leaders_allowed(k, call)
                    for n in ns:
                        if "any" not in allowed and n not in allowed:
                            bad.append(("C07_routing", "payload sent to a node no merged metadata answer named as its leader (from the call's issue on)",
                                        list(k), n, sorted(str(x) for x in allowed)))
        # the cache at the end
        v = self.view()
        if not self.closed:
            for (t, p), bm in v["t2b"].items():
                la = self.last_answer.get(t)
                if la is None or la[1] is None:
                    continue
                want = la[1].get(p, "absent")
                got = -1 if bm is None else bm[0]
                if want != got:
                    bad.append(("C08_merge_exact", "cached leader differs from the last merged metadata answer for its topic", [t, p], got, want))
        lk = self.leaks_open()
        if lk:
            bad.append(("C08_full_refresh_closes", "connection left open for a broker client the client no longer owns", lk[:4]))
        return bad

    def leaks_open(self):
        return [x for x in self.leaks() if x[0] == "open-connection" and x[1] != -1]


# ------------------------------------------------------------------ generator / runner
def gen_overlap(rnd):
    """-> history (pure data): the cluster seed, the calls issued at once and the ones issued later"""
    ncalls = rnd.randint(2, 4)

    def call(W):
        x = rnd.random()
        if x < 0.2:
            ts = [] if rnd.random() < 0.5 else [rnd.randint(0, G.UNIVERSE)]
            return {"op": "meta", "topics": ts}
        if x < 0.28:
            return {"op": "coord", "group": rnd.randint(0, 2), "group_form": G.group_form(rnd)}
        api = rnd.choice(["direct", "fetch", "fetch", "offset", "offset_commit"])
        keys = G.dedup(W.payload_keys(rnd.choice([1, 2, 3, 5]), unknown=0.03))
        op = {"op": "send", "api": api, "fail": rnd.random() < 0.4, "payloads": [list(k) for k in keys]}
        if api == "offset_commit":
            op["group"] = rnd.randint(0, 2)
            op["group_form"] = G.group_form(rnd)
        return op
    wseed = rnd.randint(0, 10 ** 6)
    W = G.World(random.Random(wseed), nbrokers=random.Random(wseed).randint(2, 5))
    warm = rnd.random() < 0.7
    first = [call(W) for _ in range(ncalls)]
    later = [(rnd.randint(1, 12), call(W)) for _ in range(rnd.randint(0, 2))]
    # faults injected right after the calls were issued, i.e. between the resolution / queueing of the requests and
    # the first answer (a refresh that is part of the calls then re-addresses or removes a broker "between the two
    # halves of a fan-out")
    return {"wseed": wseed, "warm": warm, "first": first, "later": later, "seed": rnd.randint(0, 10 ** 6),
            "steps": rnd.randint(10, 60), "pre_faults": rnd.choice([0, 0, 1, 1, 2])}


def run_overlap(h):
    """-> (verdicts, stats)"""
    wr = random.Random(h["wseed"])
    W = G.World(wr, nbrokers=random.Random(h["wseed"]).randint(2, 5))
    W.anchor = min(W.brokers)
    hosts = [W.brokers[W.anchor]] + [a for n, a in sorted(W.brokers.items()) if n != W.anchor][:1]
    sim = OverlapSim(W, hosts, h["seed"])
    CL._ACTIVE.append(sim)
    old = random.shuffle
    random.shuffle = CL._recording_shuffle
    try:
        if h["warm"]:
            sim.issue({"op": "meta", "topics": []})
            n = 0
            while sim.step(drain=True) and n < 60:
                n += 1
        for op in h["first"]:
            sim.issue(op)
        for _ in range(h.get("pre_faults", 0)):
            sim.events += 1
            sim.fault()
            sim.settle()
        later = sorted(h["later"], key=lambda x: x[0])
        n = 0
        while n < h["steps"]:
            while later and later[0][0] <= n:
                sim.issue(later.pop(0)[1])
            if not sim.step():
                break
            n += 1
        for _i, op in later:
            sim.issue(op)
        n = 0
        while n < 400 and (any(not c["res"] for c in sim.calls) or sim.frames or sim.net.pending()):
            if not sim.step(drain=True):
                break
            n += 1
        sim.collect()
        return sim.verdicts(), sim.stats, sim
    finally:
        random.shuffle = old
        CL._ACTIVE.pop()


def batch(ck, rnd, n, which):
    """run n overlapping histories; report monitor failures of property `which` (all of them are reported by both
    checks: the routing/accounting ones are C07's, the cache/closing ones C08's, a concrete history either way)"""
    nbad = 0
    for _ in range(n):
        h = gen_overlap(rnd)
        try:
            bad, stats, sim = run_overlap(h)
        except Exception as e:
            import traceback
            ck.violation({"kind": "overlap driver failure", "error": repr(e), "traceback": traceback.format_exc()[-2000:],
                          "overlap": h, "replay_op": "overlap"}, no_input=True)
            continue
        for k, v in stats.items():
            ck.hist("overlap_" + k, v)
        ck.hist("overlap_histories")
        ck.hist("overlap_calls", len(sim.calls))
        if sum(1 for c in sim.calls if c["op"]["op"] == "send") >= 2:
            ck.hist("overlap_two_or_more_sends")
        if bad:
            nbad += 1
            ck.violation({"kind": "monitor " + str(bad[0][0]) + " (overlapping operations)", "verdicts": [list(map(str, b))[:6] for b in bad[:4]],
                          "overlap": h, "replay_op": "overlap"})
    ck.cov["evaluations"] += n
    return nbad


def replay(rp):
    bad, stats, sim = run_overlap(rp["overlap"])
    for c in sim.calls:
        print(c["id"], {k: v for k, v in c["op"].items()}, "->", repr(c["res"][0])[:200] if c["res"] else "PENDING")
    print("events", sim.events, stats)
    print("verdicts:", bad if bad else "none")
    return 1 if bad else 0
