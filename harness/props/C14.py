# C14 - consumer retries / back-off, attempt limit, offset-reset policy, buffer growth.
#
# The REAL afkak.consumer.Consumer (props/consumer_lib.py: task.Clock + scripted client, fetch replies through the real
# codec) and the extracted Gallina model coq/Model/Consumer.v are driven through the same seeded event sequences; their
# canonical integer traces must be equal (correspondence).  Independently the monitors below restate the theorems of
# coq/Props/C14.v over the implementation's own trace using only what the harness itself observed (events it injected,
# requests the client saw, floats passed to callLater).
import random

import vlib
from props import consumer_lib as L

MODEL = "consumer"
MODULE = "Model.Consumer"
# every theorem of coq/Props/C14.v (all are about Model/Consumer.v or functions its proofs tie to it)
THEOREMS = ["C14_growth_rule", "C14_growth_fails_iff_at_max", "C14_growth_strict", "C14_growth_reaches_max", "C14_growth_step",
            "C14_growth_fails_step", "C14_reset_policy", "C14_limit_has_priority_over_policy", "C14_retry_fires",
            "C14_failure_step", "C14_offset_reply_resets", "C14_unlimited", "C14_limited", "C14_backoff_index", "C14_backoff_step",
            "C14_attempt_limit", "C14_unlimited_reachable", "C14_limit_in_force", "C14_fuel_enough", "C14_backoff_index_all",
            "C14_attempt_limit_all", "C14_delay_closed_form"]


# ------------------------------------------------------------------ reference functions (restating the theorems)
def grow(cur, mx):
    """C14_growth_rule / C14_growth_fails_iff_at_max, restated: None = the consumer must fail"""
    f = 16 if cur <= 2 ** 20 else 2
    if mx == -1:
        return cur * f
    if cur < mx:
        return min(cur * f, mx)
    return None


# ------------------------------------------------------------------ monitors over ONE trace (implementation or model)
def monitor(cfg, events, trace, cap_index, delays=None):
    """returns a list of (theorem, step index, message).  Only harness-side bookkeeping: which request is outstanding is
    derived from the requests the client saw and the replies the harness injected."""
    bad = []
    steps, ends = L.split_steps(trace)
    if len(steps) != len(events):
        return [("trace", len(steps), "trace has %d steps for %d events" % (len(steps), len(events)))]
    outstanding = None        # kind of the offset/fetch request the client has not answered yet
    cancelled = False
    consec = 0                # scheduled back-off delays since the last successful reply
    fails = 0                 # consecutive failed attempts since the last success / accepted start
    startd = None             # None: not started; False: start Deferred pending; True: fired
    shutting = False          # a shutdown() is in progress
    buf = cfg.buf             # buffer size the next fetch must carry
    grow_pending = 0          # too-small replies handed over and not yet seen reflected in a fetch
    last_fetch = None         # (offset, max_bytes) of the last FetchRequest
    oor_expect = None         # after OffsetOutOfRange with a reset policy: the next request must be OffsetRequest(t)
    only_empty_since_fetch = True
    att = 1                   # the consumer's attempt count as the property defines it: 1 + retries scheduled since the last success
    success_at = []
    clean_since_fetch = True  # no stop/start/shutdown since the last fetch request (a parked too-small reply may be dropped by them)
    for i, (ev, outs) in enumerate(zip(events, steps)):
        t = ev[0]
        ignored = outs[:1] == [(L.OUT_IGNORED,)]
        success = (not ignored) and ((t == L.EV_REQ_OK and outstanding in (L.R_OFFREQ, L.R_OFFFETCH)) or
                                     (t == L.EV_FETCH_OK and outstanding == L.R_FETCH))
        failure = (not ignored) and t == L.EV_REQ_FAIL and outstanding is not None
        accepted_start = t == L.EV_START and (L.OUT_RAISED, L.X_RESTART) not in outs
        kind_answered = outstanding
        startd_before = startd
        if success or failure:
            outstanding = None
        if success:
            consec, fails, att = 0, 0, 1
            success_at.append(i)
        if accepted_start:
            fails, startd, oor_expect = 0, False, None
            only_empty_since_fetch = False
        if failure:
            fails += 1
        if t == L.EV_SHUTDOWN and (L.OUT_RET, 0) in outs and not any(o[0] == L.OUT_SHUTDOWN_D for o in outs):
            shutting = True
        # ---- walk the outputs of this step
        sched_idx = []
        for o in outs:
            tag = o[0]
            if tag == L.OUT_SCHED and o[1] == L.T_RETRY and o[2] >= 0:
                sched_idx.append(o[2])
            elif tag == L.OUT_SCHED and o[1] == L.T_RETRY and o[2] < -1:
                bad.append(("C14_delay_closed_form", i, "retry delay is not an element of the delay sequence"))
            elif tag == L.OUT_START_D:
                if startd is not False:
                    bad.append(("C13_start_once", i, "start Deferred outcome reported while none was pending"))
                startd = True
                if o[1] == 0 and failure and cfg.maxatt == 0 and not shutting and o[2] == ev[1] and \
                        not (ev[1] == L.FK_OOR and kind_answered == L.R_FETCH and cfg.reset == 0):
                    bad.append(("C14_unlimited_outside_shutdown", i,
                                "attempt limit 0 but a failed request ended the consumer (failure kind %d)" % o[2]))
            elif tag == L.OUT_SHUTDOWN_D and not (o[1] == 0 and o[2] == L.X_RESTOP):
                shutting = False
            elif tag in (L.OUT_OFFREQ, L.OUT_OFFFETCH, L.OUT_FETCH):
                if outstanding is not None and not cancelled:
                    bad.append(("C02_single_fetch", i, "request sent while another is outstanding"))
                outstanding = {L.OUT_OFFREQ: L.R_OFFREQ, L.OUT_OFFFETCH: L.R_OFFFETCH, L.OUT_FETCH: L.R_FETCH}[tag]
                cancelled = False
                if oor_expect is not None:
                    if not (tag == L.OUT_OFFREQ and o[1] == oor_expect):
                        bad.append(("C14_reset_policy", i, "after OffsetOutOfRange the next request must be OffsetRequest(%d), saw %r" % (oor_expect, o)))
                    oor_expect = None
                if tag == L.OUT_FETCH:
                    # growth: the buffer carried is the previous one, grown once per too-small reply handed over
                    exp = buf
                    g = 0
                    while g < grow_pending and exp is not None and (o[2] != exp or clean_since_fetch):
                        nxt = grow(exp, cfg.maxbuf)       # every too-small reply handed over grows the buffer exactly once
                        if nxt is None:
                            break
                        exp = nxt
                        g += 1
                    if exp is None or o[2] != exp:
                        bad.append(("C14_growth_rule", i, "fetch carries max_bytes %d, expected %r after %d growth steps from %d" % (o[2], exp, g, buf)))
                    elif o[2] != buf and last_fetch is not None and only_empty_since_fetch and o[1] != last_fetch[0]:
                        bad.append(("C14_growth_step", i, "buffer grew but the fetch offset moved from %d to %d: message skipped" % (last_fetch[0], o[1])))
                    buf, grow_pending, last_fetch, only_empty_since_fetch, clean_since_fetch = o[2], 0, (o[1], o[2]), True, True
            elif tag == L.OUT_CANCEL_REQ and o[1] != L.R_COMMIT:
                cancelled = True
                outstanding = None
        # ---- the limit test itself (C14_limited): a failed request may end the consumer only when the attempts made reach the limit
        if failure and cfg.maxatt > 0 and not shutting and att < cfg.maxatt and \
                any(o[0] == L.OUT_START_D and o[1] == 0 and o[2] == ev[1] for o in outs) and \
                not (ev[1] == L.FK_OOR and kind_answered == L.R_FETCH and cfg.reset == 0):
            bad.append(("C14_limited", i, "start Deferred failed with the request failure after %d attempt(s), limit %d" % (att, cfg.maxatt)))
        att += sum(1 for o in outs if o[0] == L.OUT_SCHED and o[1] == L.T_RETRY)
        # ---- back-off index: consecutive from the count since the last success, capped
        for k in sched_idx:
            if k != min(consec, cap_index):
                bad.append(("C14_backoff_index", i, "retry scheduled with delay index %d, expected %d (consecutive failures since the last success)" % (k, min(consec, cap_index))))
            consec += 1
        # ---- attempt limit
        if cfg.maxatt > 0 and startd is False and fails >= cfg.maxatt:
            bad.append(("C14_attempt_limit", i, "%d consecutive failed attempts with limit %d and the start Deferred is still pending" % (fails, cfg.maxatt)))
        # ---- reset policy
        if failure and ev[1] == L.FK_OOR and kind_answered == L.R_FETCH:
            was_pending = any(o[0] == L.OUT_START_D for o in outs) or startd is False
            if cfg.reset == 0:
                if sched_idx:
                    bad.append(("C14_reset_policy", i, "policy None but a retry was scheduled after OffsetOutOfRange"))
                if was_pending and not any(o[0] == L.OUT_START_D and o[1] == 0 and o[2] == L.FK_OOR for o in outs):
                    bad.append(("C14_reset_policy", i, "policy None but the start Deferred did not fail with OffsetOutOfRange"))
            else:
                if sched_idx:
                    oor_expect = L.OFFSET_EARLIEST if cfg.reset == 1 else L.OFFSET_LATEST
        # ---- growth bookkeeping
        if t == L.EV_FETCH_OK and not ignored:
            if ev[2]:
                grow_pending += 1
            if ev[1]:
                only_empty_since_fetch = False
            if ev[2] and not ev[1] and any(o[0] == L.OUT_START_D and o[1] == 0 and o[2] == L.FK_TOOSMALL for o in outs):
                if grow(buf, cfg.maxbuf) is not None:
                    bad.append(("C14_growth_fails_iff_at_max", i, "failed with ConsumerFetchSizeTooSmall although buffer %d is below the maximum %d" % (buf, cfg.maxbuf)))
            if ev[2] and not ev[1] and grow_pending == 1 and grow(buf, cfg.maxbuf) is None and startd_before is False and \
                    any(o[0] == L.OUT_SCHED and o[1] == L.T_RETRY for o in outs):
                bad.append(("C14_growth_fails_iff_at_max", i, "buffer %d is already the maximum, yet the consumer re-fetches instead of failing" % buf))
        if t in (L.EV_REQ_OK, L.EV_REQ_FAIL, L.EV_START):
            only_empty_since_fetch = False
        if t in (L.EV_STOP, L.EV_START, L.EV_SHUTDOWN) or any(o[0] in (L.OUT_RET, L.OUT_RAISED) for o in outs):
            clean_since_fetch = False
        if t == L.EV_STOP and any(o[0] == L.OUT_RET for o in outs):
            startd, outstanding, shutting, oor_expect = None, None, False, None
        if any(o[0] == L.OUT_SHUTDOWN_D and not (o[1] == 0 and o[2] == L.X_RESTOP) for o in outs):
            startd, outstanding, oor_expect = None, None, None
    # ---- the delays themselves: within a run of failures they never decrease, never exceed the maximum, start at the initial one
    if delays is not None:
        init, mx = cfg.DELAYS[cfg.cap]
        prev, prev_i = None, -1
        for (step, kind, d) in delays:
            i = step - 1
            if kind != L.T_RETRY:
                continue
            if d == 0 or any(prev_i < j <= i for j in success_at):
                prev = None              # a success in between: the sequence starts again
            if d == 0:
                continue
            if init <= mx:
                if d > mx:
                    bad.append(("C14_delay_closed_form", i, "retry delay %r exceeds the maximum %r" % (d, mx)))
                if prev is not None and d < prev:
                    bad.append(("C14_delay_closed_form", i, "retry delay %r is smaller than the previous one %r in the same failure run" % (d, prev)))
                if d < init:
                    bad.append(("C14_delay_closed_form", i, "retry delay %r is below the initial delay %r" % (d, init)))
            prev, prev_i = d, i
    return bad


# ------------------------------------------------------------------ directed case families
def fam_ladder(rnd):
    """growth ladder: too-small replies until the maximum (or a few steps without one), failures interleaved"""
    buf = rnd.choice([64, 4096, 65536, 1 << 17, (1 << 20) - 1, 1 << 20, (1 << 20) + 1, 1 << 22])
    maxbuf = rnd.choice([-1, buf, buf * 2, buf * 3, buf * 16, buf * 16 + 1, buf * 40, buf * 600, 1 << 20, (1 << 20) * 16, 1 << 30])
    if maxbuf != -1 and maxbuf < buf:
        maxbuf = buf
    cfg = L.gen_cfg(rnd, buf=buf, maxbuf=maxbuf, maxatt=rnd.choice([0, 0, 4]))
    evs = [(L.EV_START, rnd.choice([0, 7, 100]))]
    for _ in range(rnd.randint(2, 9)):
        r = rnd.random()
        if r < 0.7:
            evs += [(L.EV_FETCH_OK, [], 1), (L.EV_FIRE_RETRY,)]
        elif r < 0.85:
            evs += [(L.EV_REQ_FAIL, L.FK_KAFKA), (L.EV_FIRE_RETRY,)]
        else:
            evs += [(L.EV_PLAN, 0, 0), (L.EV_FETCH_OK, "next", 0), (L.EV_FIRE_RETRY,)]
    return cfg, evs


def fam_failures(rnd):
    """runs of failures / successes against every limit and cap"""
    cfg = L.gen_cfg(rnd, maxatt=rnd.choice([0, 0, 1, 2, 3, 4, 6, 9]), cap=rnd.choice([3, 7, 14]))
    evs = [(L.EV_START, rnd.choice([0, 5, L.OFFSET_EARLIEST, L.OFFSET_LATEST, L.OFFSET_COMMITTED if cfg.group else 3]))]
    for _ in range(rnd.randint(3, 24)):
        r = rnd.random()
        if r < 0.6:
            evs += [(L.EV_REQ_FAIL, rnd.choice([L.FK_KAFKA, L.FK_KAFKA, L.FK_OTHER, L.FK_OOR, L.FK_CANCELLED])), (L.EV_FIRE_RETRY,)]
        elif r < 0.75:
            evs += [(L.EV_REQ_OK, rnd.choice([-1, 0, 12])), (L.EV_FIRE_RETRY,)]
        elif r < 0.9:
            evs += [(L.EV_PLAN, 0, 0), (L.EV_FETCH_OK, "next", 0), (L.EV_FIRE_RETRY,)]
        elif r < 0.95:
            evs += [(L.EV_STOP,), (L.EV_START, rnd.choice([0, 5, L.OFFSET_EARLIEST]))]
        else:
            evs += [(L.EV_SHUTDOWN,)]
    return cfg, evs


def fam_oor(rnd):
    """OffsetOutOfRange arriving at any point, every policy"""
    cfg = L.gen_cfg(rnd, reset=rnd.choice([0, 1, 2]), maxatt=rnd.choice([0, 0, 2, 3]))
    evs = [(L.EV_START, rnd.choice([0, 50, L.OFFSET_COMMITTED if cfg.group else 9]))]
    for _ in range(rnd.randint(1, 8)):
        r = rnd.random()
        if r < 0.45:
            evs += [(L.EV_REQ_FAIL, L.FK_OOR), (L.EV_FIRE_RETRY,), (L.EV_REQ_OK, rnd.choice([0, 3, 77]))]
        elif r < 0.6:
            evs += [(L.EV_REQ_FAIL, L.FK_KAFKA), (L.EV_FIRE_RETRY,)]
        elif r < 0.8:
            evs += [(L.EV_PLAN, 0, rnd.choice([0, 0, 2])), (L.EV_FETCH_OK, "next", 0), (L.EV_FIRE_RETRY,), (L.EV_PROC_FIRE, 1)]
        else:
            evs += [(L.EV_REQ_OK, rnd.choice([-1, 5]))]
    return cfg, evs


def run_family(fam, rnd):
    """instantiate "next" offsets against the running driver; returns (cfg, events, driver)"""
    cfg, evs = fam(rnd)
    L.quiet()
    drv = L.Driver(cfg)
    out = []
    for ev in evs:
        if ev[0] == L.EV_FETCH_OK and ev[1] == "next":
            last = [a for (_, what, a) in drv.sent if what == "fetch"]
            base = last[-1][0] if last else 0
            ev = (L.EV_FETCH_OK, [base + k for k in range(rnd.randint(1, 3))], ev[2])
        out.append(ev)
        drv.step(ev)
    return cfg, out, drv


C14_WEIGHTS = {L.EV_REQ_FAIL: 12, L.EV_FIRE_RETRY: 14, L.EV_REQ_OK: 8, L.EV_COMMIT: 1, L.EV_TICK: 1, L.EV_SHUTDOWN: 1,
               L.EV_STOP: 2, L.EV_COMMIT_FAIL: 2}

CORPUS = [
    # F-C14-1 (fixed 126eebe): shutdown() must not leave request_retry_max_attempts at 2 after the consumer is restarted
    (dict(group=1, maxatt=0), [(L.EV_START, 0), (L.EV_SHUTDOWN,), (L.EV_START, 0), (L.EV_REQ_FAIL, 1), (L.EV_FIRE_RETRY,),
                               (L.EV_REQ_FAIL, 1), (L.EV_FIRE_RETRY,), (L.EV_REQ_FAIL, 1), (L.EV_FIRE_RETRY,), (L.EV_REQ_FAIL, 1)]),
    # growth across the 1 MiB boundary: 65536 -> 1 MiB -> 16 MiB -> 32 MiB (x16 while <= 2^20, then x2), clipped at 40 MiB
    (dict(group=0, buf=65536, maxbuf=40 << 20), [(L.EV_START, 9)] + [(L.EV_FETCH_OK, [], 1), (L.EV_FIRE_RETRY,)] * 6),
    # back-off to the cap and reset by a success
    (dict(group=0, cap=3), [(L.EV_START, 0)] + [(L.EV_REQ_FAIL, 1), (L.EV_FIRE_RETRY,)] * 6 +
     [(L.EV_PLAN, 0, 0), (L.EV_FETCH_OK, [0], 0), (L.EV_FIRE_RETRY,), (L.EV_REQ_FAIL, 1), (L.EV_FIRE_RETRY,), (L.EV_REQ_FAIL, 1)]),
    # limit 3 from an offset request
    (dict(group=0, maxatt=3), [(L.EV_START, L.OFFSET_EARLIEST)] + [(L.EV_REQ_FAIL, 1), (L.EV_FIRE_RETRY,)] * 3),
    # all three policies
    (dict(group=0, reset=0), [(L.EV_START, 5), (L.EV_REQ_FAIL, L.FK_OOR), (L.EV_FIRE_RETRY,)]),
    (dict(group=0, reset=1), [(L.EV_START, 5), (L.EV_REQ_FAIL, L.FK_OOR), (L.EV_FIRE_RETRY,), (L.EV_REQ_OK, 2)]),
    (dict(group=0, reset=2), [(L.EV_START, 5), (L.EV_REQ_FAIL, L.FK_OOR), (L.EV_FIRE_RETRY,), (L.EV_REQ_OK, 90)]),
]


def describe(c):
    return {"cfg": dict(zip(L.Cfg.FIELDS, c[1:11])), "events_line": c[11:71]}


def check_case(ck, cfg, events, drv, tag):
    """monitors on the implementation's own trace; returns the list of failures"""
    bad = monitor(cfg, events, drv.trace, drv.cap_index(), drv.delays)
    for fb in drv.float_bad:
        bad.append(("C14_delay_closed_form", -1, "delay passed to callLater is not the recurrence value bit for bit: %r" % (fb,)))
    return bad


def report(ck, cfg, events, bad, trace, origin):
    ck.violation({"kind": "monitor failed on the implementation's trace", "theorem": bad[0][0], "step": bad[0][1],
                  "what": bad[0][2], "all": [list(b) for b in bad[:6]], "cfg": cfg.line(),
                  "events": [list(e) for e in events], "impl_trace": trace, "origin": origin, "replay_op": "case"})


def shrink(cfg, events, pred):
    """drop events while the failure persists"""
    events = list(events)
    changed = True
    while changed:
        changed = False
        for i in range(len(events) - 1, -1, -1):
            cand = events[:i] + events[i + 1:]
            try:
                if pred(cfg, cand):
                    events, changed = cand, True
            except Exception:
                pass
    return events


def fails_on_impl(cfg, events):
    drv = L.run_impl(cfg, events)
    return bool(monitor(cfg, events, drv.trace, drv.cap_index(), drv.delays) or drv.float_bad)


def run(ck):
    vlib.import_repo()
    ck.build([MODEL])
    ck.props()
    rnd = random.Random(ck.seed)
    thorough = ck.tier == "thorough"
    scale = 12 if thorough else 1
    L.quiet()
    # hypothesis of C14_delay_closed_form (1 <= F; DESIGN: F > 1) against the implementation's own constant
    import afkak.consumer as AC
    ck.cov["retry_factor"] = AC.REQUEST_RETRY_FACTOR
    if not (AC.REQUEST_RETRY_FACTOR > 1):
        cfg0 = L.Cfg(group=0, cap=7)
        evs0 = [(L.EV_START, 0), (L.EV_REQ_FAIL, 1), (L.EV_FIRE_RETRY,), (L.EV_REQ_FAIL, 1), (L.EV_FIRE_RETRY,), (L.EV_REQ_FAIL, 1)]
        d0 = L.run_impl(cfg0, evs0)
        ck.violation({"kind": "REQUEST_RETRY_FACTOR is not greater than 1: the delays do not grow (hypothesis of C14_delay_closed_form false of the code)",
                      "theorem": "C14_delay_closed_form", "factor": AC.REQUEST_RETRY_FACTOR,
                      "delays_passed_to_callLater": [d for (_, k, d) in d0.delays if k == L.T_RETRY],
                      "cfg": cfg0.line(), "events": [list(e) for e in evs0], "impl_trace": d0.trace, "replay_op": "case"})

    batches = []      # (label, [(cfg, events, drv)])
    corpus = []
    for kw, evs in CORPUS:
        cfg = L.Cfg(**kw)
        corpus.append((cfg, evs, L.run_impl(cfg, evs)))
    batches.append(("corpus (directed cases: F-C14-1, growth over 1 MiB, back-off cap, limit, three policies)", corpus))
    for fam, n, label in ((fam_ladder, 250, "buffer-growth ladders"), (fam_failures, 350, "failure/success runs against limits and caps"),
                          (fam_oor, 250, "OffsetOutOfRange at any point, all policies")):
        batches.append((label, [run_family(fam, rnd) for _ in range(n * scale)]))
    gen = []
    for _ in range(900 * scale):
        gen.append(L.gen_case(rnd, rnd.choice([12, 25, 40, 70 if thorough else 50]), weights=C14_WEIGHTS))
    batches.append(("state-aware random event sequences (all 14 event kinds, retry-heavy weights)", gen))
    if thorough:
        ex = []
        for cfg in (L.Cfg(group=0, maxatt=2, reset=1, buf=64, maxbuf=1024, cap=3), L.Cfg(group=1, maxatt=0, reset=0, acn=1, cap=3)):
            for evs, drv in L.enumerate_cases(cfg, 5, preamble=[(L.EV_START, 0)], alphabet=c14_alphabet, limit=6000):
                ex.append((cfg, evs, drv))
        batches.append(("exhaustive depth-5 enumeration over the C14 alphabet after start (2 configurations)", ex))

    nviol_monitor = 0
    for label, items in batches:
        cases = [L.case_line(cfg, evs) for cfg, evs, _ in items]
        impl = [drv.trace for _, _, drv in items]
        for cfg, evs, drv in items:
            for ev in evs:
                ck.hist(L.EV_NAMES[ev[0]])
            ck.hist("cfg_maxatt=%d" % min(cfg.maxatt, 4))
            ck.hist("cfg_reset=%d" % cfg.reset)
            ck.hist("cfg_maxbuf_" + ("none" if cfg.maxbuf == -1 else "eq" if cfg.maxbuf == cfg.buf else "gt"))
            tr = drv.trace
            st, _ = L.split_steps(tr)
            for s_ in st:
                for o in s_:
                    if o[0] == L.OUT_SCHED and o[1] == L.T_RETRY:
                        ck.hist("retry_idx=%s" % ("zero-delay" if o[2] == -1 else min(o[2], 8)))
                    if o[0] == L.OUT_START_D and o[1] == 0:
                        ck.hist("startd_fails_kind=%d" % o[2])
            ck.cov["float_checks"] = ck.cov.get("float_checks", 0) + drv.float_checks
        diffs, mo = L.correspond(ck, MODEL, MODULE, cases, impl, label,
                                  nontrivial=lambda c, o: any(x in o for x in (L.OUT_SCHED,)) and len(o) > 12, describe=describe)
        # monitors: implementation trace AND model trace
        for idx, (cfg, evs, drv) in enumerate(items):
            bad = check_case(ck, cfg, evs, drv, label)
            if bad:
                nviol_monitor += 1
                small = shrink(cfg, evs, fails_on_impl) if nviol_monitor <= 3 else evs
                d2 = L.run_impl(cfg, small)
                b2 = monitor(cfg, small, d2.trace, d2.cap_index(), d2.delays) or bad
                report(ck, cfg, small, b2, d2.trace, label)
            mbad = monitor(cfg, evs, mo[idx], drv.cap_index())
            if mbad and not bad and idx not in diffs:
                ck.violation({"kind": "monitor fails on the MODEL's trace (proof obligation and monitor disagree)", "what": [list(b) for b in mbad[:3]],
                              "cfg": cfg.line(), "events": [list(e) for e in evs]}, no_input=True)
        # a correspondence difference with every monitor passing: look harder around it, else name the broken tie
        if diffs and not nviol_monitor:
            found = False
            for i in diffs[:4]:
                cfg, evs, drv = items[i]
                for _ in range(40):
                    ext = list(evs) + [L.fill_event(rnd, drv, rnd.choice([L.EV_REQ_FAIL, L.EV_FIRE_RETRY, L.EV_REQ_OK, L.EV_FETCH_OK])) for _ in range(6)]
                    d2 = L.run_impl(cfg, ext)
                    b2 = monitor(cfg, ext, d2.trace, d2.cap_index(), d2.delays)
                    if b2 or d2.float_bad:
                        report(ck, cfg, shrink(cfg, ext, fails_on_impl), b2 or [("C14_delay_closed_form", -1, repr(d2.float_bad[:2]))], d2.trace, label + " (search around a correspondence difference)")
                        found = True
                        break
                if found:
                    break
            if not found:
                i = diffs[0]
                cfg, evs, drv = items[i]
                small = shrink(cfg, evs, lambda c, e: L.canon_trace(L.run_impl(c, e).trace) != L.canon_trace(ck.model(MODEL, [L.case_line(c, e)])[0]))
                d2 = L.run_impl(cfg, small)
                m2 = ck.model(MODEL, [L.case_line(cfg, small)])[0]
                sa, _ = L.split_steps(d2.trace)
                sb, _ = L.split_steps(m2)
                first = next((k for k, (x, y) in enumerate(zip(sa, sb)) if x != y), min(len(sa), len(sb)))
                ck.violation({"kind": "correspondence broken: the Consumer no longer behaves like the proved model",
                              "correspondence": "corr:consumer:trace", "theorems_no_longer_tied": THEOREMS,
                              "cfg": cfg.line(), "events": [list(e) for e in small], "first_differing_step": first,
                              "event_there": list(small[first]) if first < len(small) else None,
                              "impl_step": sa[first] if first < len(sa) else None, "model_step": sb[first] if first < len(sb) else None,
                              "differences": len(diffs), "of": len(items), "replay_op": "case"}, no_input=True)
        # the model-side candidate invariants / Coq monitors on the same cases (validation of the statements proved)
        for op, what in ((2, "invariants Model.Consumer.invs"), (3, "Model.Consumer.mon_step / limit_run")):
            res = ck.model(MODEL, [[op] + c[1:] for c in cases])
            badm = [(i, r) for i, r in enumerate(res) if r]
            ck.cov.setdefault("model_side_checks", {})[what + " :: " + label] = {"cases": len(cases), "failing": len(badm)}
            if badm and not ck.violations:
                i, r = badm[0]
                ck.violation({"kind": "model-side check fails (statement of a theorem is false of the model on this case)", "check": what,
                              "result": r, "cfg": items[i][0].line(), "events": [list(e) for e in items[i][1]]}, no_input=True)

    # implementation-side only (no model counterpart): the application restarts the consumer from a callback of the start
    # Deferred at the moment stop() fires it; the nested start's first request may fail at once - the retry must be armed
    rruns, rrestarts, rfail = L.restart_cb_family(ck, rnd, L.RESTART_PRES, 1 * scale)
    ck.cov["restart_from_start_callback_runs"] = {"runs": rruns, "restarts_made": rrestarts, "failing": rfail}

    if thorough:
        ck.coqchk(["AV.Props.C14"])
    ck.cov["rule"] = ("seeded (random.Random(VERIF_SEED)) event sequences over the 14-event alphabet of Model/Consumer.v, state-aware "
                      "(mostly enabled events, ~10 % arbitrary), retry-heavy weights; directed families: growth ladders over the 1 MiB "
                      "boundary with every relation of buffer to maximum, failure/success runs against limits 0..9 and three delay caps, "
                      "OffsetOutOfRange at any point under the three policies; corpus of minimised cases. Non-trivial = the trace "
                      "schedules at least one retry and has more than 12 integers; distinct = distinct canonical case lines.")
    ck.assumptions += [
        "Model/Consumer.v is a hand transcription of afkak/consumer.py:290-1131 (tie = this run's trace correspondence, not proof)",
        "float delays: the model carries the index in the sequence d0=init, d(k+1)=min(d(k)*REQUEST_RETRY_FACTOR, max); the harness "
        "checks every float passed to callLater bit for bit against that recurrence computed from afkak.consumer's own constant",
        "the client is a scripted stand-in (send_* return Deferreds the harness fires); KafkaClient itself is covered by C07/C08/C11",
        "Twisted Deferred / DelayedCall / LoopingCall semantics as summarised at the top of Model/Consumer.v (exercised, not verified)",
        "theorems about single steps hold in every model state; the run-level theorems (C14_backoff_index, C14_attempt_limit, reachable-state "
        "invariant) carry the hypothesis all_fuel_ok (no OFuel output), which C14_fuel_enough discharges for every configuration the constructor "
        "accepts (auto_commit_every_n >= 0): C14_backoff_index_all / C14_attempt_limit_all state them as exists fuel0, forall fuel >= fuel0; the "
        "harness itself gives the model fuel 60 + #events + 2 x #messages, a case needing more would surface as a trace difference",
        "C14_unlimited_reachable: with limit 0 the count ends the consumer only while shutdown() has suspended the unlimited retries "
        "(consumer.py:408-410); that the flag implies a shutdown in progress is checked by the monitor, not Qed",
    ]
    ck.cov["trusted_base"] += ["correspondence harness harness/props/C14.py + consumer_lib.py + vlib.py",
                               "extracted OCaml runner (ExtrOcamlBasic) cross-checked by vm_compute sample"]


def c14_alphabet(drv):
    last = [a for (_, what, a) in drv.sent if what == "fetch"]
    base = last[-1][0] if last else 0
    al = [(L.EV_REQ_FAIL, L.FK_KAFKA), (L.EV_REQ_FAIL, L.FK_OOR), (L.EV_FETCH_OK, [base], 0), (L.EV_FETCH_OK, [], 1),
          (L.EV_REQ_OK, 3), (L.EV_FIRE_RETRY,), (L.EV_PLAN, 0, 0), (L.EV_STOP,), (L.EV_START, 0), (L.EV_SHUTDOWN,)]
    return [e for e in al if drv.enabled(e)]


def replay(rp):
    import json
    if rp.get("replay_op") == "restartcb":
        return L.replay_restart_cb(rp)
    if rp.get("replay_op") != "case":
        print(json.dumps(rp, indent=1, default=repr)[:4000])
        return 1
    cfg = L.Cfg.from_line(rp["cfg"])
    events = [tuple(e) for e in rp["events"]]
    drv = L.run_impl(cfg, events)
    steps, ends = L.split_steps(drv.trace)
    for ev, st, en in zip(events, steps, ends):
        print("%-18s %-22s -> %s   lp/lc=%s" % (L.EV_NAMES[ev[0]], list(ev[1:]), st, en))
    bad = monitor(cfg, events, drv.trace, drv.cap_index(), drv.delays)
    print("float mismatches:", drv.float_bad)
    print("monitor verdict:", bad if bad else "passes")
    if rp.get("correspondence"):
        print("correspondence replay: compare with the model via ./check C14 quick")
        return 1
    return 1 if (bad or drv.float_bad) else 0
