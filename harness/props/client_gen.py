# Shared by C07 and C08: seeded generators of KafkaClient histories (a simulated cluster that changes under the
# client, plus arbitrary "chaos" scripts), the monitors that restate the theorems of coq/Props/C07.v / C08.v over
# the implementation's own observations, execution + shrinking helpers.  Histories are pure JSON-able data.
import copy
import json
import random

from props import client_lib as CL

UNIVERSE = 4          # topic ids 0..3 are dumped by metadata_error_for_topic / has_metadata_for_topic
TOPIC_ERRS = (3, 6)
GROUP_ERRS = (14, 15, 16)


# ------------------------------------------------------------------ the simulated cluster
class World(object):
    def __init__(self, rnd, nbrokers=None, ntopics=None):
        self.rnd = rnd
        self.next_host = 100
        self.brokers = {}                 # node -> (host id, port): where the broker listens NOW
        for n in range(1, (nbrokers or rnd.randint(1, 5)) + 1):
            self.brokers[n] = self.fresh_addr()
        self.topics = {}                  # topic -> {partition: leader node or -1}
        self.terr = {}                    # topic -> topic error code
        for t in range(ntopics if ntopics is not None else rnd.randint(1, UNIVERSE)):
            self.topics[t] = {p: self.pick_leader() for p in range(rnd.randint(1, 4))}
            self.terr[t] = 0
        self.coords = {}                  # group -> node
        self.hidden = set()               # topics currently reported with LeaderNotAvailable (5) and NO partitions
        self.anchor = None                # a broker that never dies or moves (keeps the cluster reachable)

    def fresh_addr(self):
        self.next_host += 1
        return (self.next_host, self.rnd.choice([9092, 9092, 9093, 1234]))

    def pick_leader(self, leaderless=0.0):
        if self.rnd.random() < leaderless or not self.brokers:
            return -1
        return self.rnd.choice(sorted(self.brokers))

    def boot_hosts(self):
        """bootstrap hosts: some of the brokers' initial addresses, sometimes a host where nothing listens"""
        addrs = sorted(self.brokers.values())
        hs = self.rnd.sample(addrs, self.rnd.randint(1, min(3, len(addrs))))
        if self.rnd.random() < 0.3:
            hs.append((self.rnd.randint(1, 12), 9092))
        if self.rnd.random() < 0.2:
            hs.append(hs[0])
        self.rnd.shuffle(hs)
        return hs

    def coord(self, g):
        if g not in self.coords or self.coords[g] not in self.brokers:
            self.coords[g] = self.rnd.choice(sorted(self.brokers)) if self.brokers else -1
        return self.coords[g]

    # ---- faults: each returns the nodes whose existing connections die with it
    def move_leaders(self):
        moved = False
        for t in self.topics:
            for p in self.topics[t]:
                if self.rnd.random() < 0.5 and len(self.brokers) > 1:
                    self.topics[t][p] = self.rnd.choice([n for n in sorted(self.brokers) if n != self.topics[t][p]])
                    moved = True
        return []

    def kill_broker(self):
        cand = [n for n in sorted(self.brokers) if n != self.anchor]
        if len(self.brokers) <= 1 or not cand:
            return []
        n = self.rnd.choice(cand)
        del self.brokers[n]
        for t in self.topics:
            for p in self.topics[t]:
                if self.topics[t][p] == n:
                    self.topics[t][p] = self.rnd.choice(sorted(self.brokers))
        for g in list(self.coords):
            if self.coords[g] == n:
                self.coords[g] = self.rnd.choice(sorted(self.brokers))
        return [n]

    def restart_broker(self):
        """the broker comes back at a NEW address (container restarted); leadership may move meanwhile"""
        cand = [n for n in sorted(self.brokers) if n != self.anchor]
        if not cand:
            return []
        n = self.rnd.choice(cand)
        if self.rnd.random() < 0.45:
            # same host, another port (a re-addressing that differs in ONE component of the address)
            h, p = self.brokers[n]
            self.brokers[n] = (h, self.rnd.choice([q for q in (9092, 9093, 1234, 19092) if q != p]))
        else:
            self.brokers[n] = self.fresh_addr()
        return [n]

    def readdress(self, n, mode):
        """broker n now listens elsewhere: mode 'port' (same host), 'host' (same port), 'both' """
        h, p = self.brokers[n]
        if mode == "port":
            self.brokers[n] = (h, self.rnd.choice([q for q in (9092, 9093, 1234, 19092) if q != p]))
        elif mode == "host":
            self.next_host += 1
            self.brokers[n] = (self.next_host, p)
        else:
            self.brokers[n] = self.fresh_addr()

    def add_broker(self):
        n = max(list(self.brokers) + [0]) + 1
        self.brokers[n] = self.fresh_addr()
        return []

    def move_coordinators(self):
        for g in list(self.coords):
            if len(self.brokers) > 1:
                self.coords[g] = self.rnd.choice([n for n in sorted(self.brokers) if n != self.coords[g]])
        return []

    # ---- changes of the topic set (not used by the failover scenarios, whose partitions keep a leader)
    def delete_topic(self):
        if self.topics:
            t = self.rnd.choice(sorted(self.topics))
            del self.topics[t]
            self.terr.pop(t, None)
        return []

    def create_topic(self):
        free = [t for t in range(UNIVERSE + 1) if t not in self.topics]
        if free:
            t = self.rnd.choice(free)
            self.topics[t] = {p: self.pick_leader(0.1) for p in range(self.rnd.randint(1, 4))}
            self.terr[t] = 0
        return []

    def resize_topic(self):
        if self.topics:
            t = self.rnd.choice(sorted(self.topics))
            n = self.rnd.randint(0, 5)
            self.topics[t] = {p: self.topics[t].get(p, self.pick_leader()) for p in range(n)}
        return []

    def topic_trouble(self):
        if self.topics:
            t = self.rnd.choice(sorted(self.topics))
            self.hidden.discard(t)
            if self.rnd.random() < 0.35:
                self.hidden.add(t)
                return []
            self.terr[t] = self.rnd.choice([0, 5, 5, 3])
            for p in self.topics[t]:
                if self.rnd.random() < 0.4:
                    self.topics[t][p] = -1
        return []

    def fault(self, extended=False):
        fs = [self.move_leaders, self.move_leaders, self.kill_broker, self.restart_broker,
              self.add_broker, self.move_coordinators]
        if extended:
            fs += [self.delete_topic, self.create_topic, self.resize_topic, self.resize_topic, self.topic_trouble,
                   self.topic_trouble]
        f = self.rnd.choice(fs)
        return f.__name__, f()

    # ---- what an honest broker says
    def raw_meta(self, topics, shuffle=True):
        brokers = [(n, h, p) for n, (h, p) in sorted(self.brokers.items())]
        ts = sorted(self.topics) if not topics else list(topics)
        out = []
        for t in ts:
            if t in self.hidden and t in self.topics:
                out.append((5, t, []))
            elif t in self.topics:
                parts = [(0, p, l) for p, l in sorted(self.topics[t].items())]
                if shuffle:
                    self.rnd.shuffle(parts)
                out.append((self.terr.get(t, 0), t, parts))
            else:
                out.append((3, t, []))
        if shuffle:
            self.rnd.shuffle(brokers)
            self.rnd.shuffle(out)
        return {"brokers": brokers, "topics": out}

    def plan(self, group=None):
        pl = {"live_addrs": [list(a) for a in sorted(self.brokers.values())],
              "leaders": {"%d:%d" % (t, p): l for t in self.topics for p, l in self.topics[t].items()},
              "meta_by_topic": {str(t): self.raw_meta([t]) for t in range(UNIVERSE + 1)},
              "meta_default": self.raw_meta([]),
              "answer_seed": self.rnd.randint(0, 10 ** 6)}
        pl["meta_by_topic"]["all"] = self.raw_meta([])
        if group is not None:
            n = self.coord(group)
            pl["coord_of"] = {str(group): n}
            pl["coord_default"] = [0, n] + list(self.brokers[n]) if n in self.brokers else [15, -1, 0, 0]
        return pl

    def payload_keys(self, k, unknown=0.05):
        keys = [(t, p) for t in self.topics for p in self.topics[t]]
        out = []
        for _ in range(k):
            if self.rnd.random() < unknown or not keys:
                out.append((self.rnd.randint(0, UNIVERSE), self.rnd.randint(0, 5)))
            else:
                out.append(self.rnd.choice(keys))
        return out


def dedup(keys):
    seen, out = set(), []
    for k in keys:
        if k not in seen:
            seen.add(k)
            out.append(k)
    return out


PUBLIC_APIS = ["offset", "produce", "fetch", "fetch", "offset_fetch", "offset_commit"]


BYTES_OFFSET_FETCH_OK = [None]


def probe_bytes_offset_fetch():
    """F-C07-3: does send_offset_fetch_request accept a bytes group name (as every other group API does)?
    -> (ok, description of what happened)"""
    h = {"hosts": [[101, 9092]], "form": "tuples", "universe": UNIVERSE, "seed": 0,
         "ops": [{"op": "send", "api": "offset_fetch", "group": 1, "group_form": "bytes", "fail": False, "expect": True,
                  "payloads": [[0, 0]],
                  "plan": {"coord_default": [0, 1, 101, 9092], "coord_of": {"1": 1},
                           "meta_default": {"brokers": [[1, 101, 9092]], "topics": [[0, 0, [[0, 0, 1]]]]}}}]}
    _c, _t, obs, _s = run(h)
    res = obs[0]["result"]
    ok = res["kind"] == "ok" and len(obs[0]["pump"]["reqs"]) == 1
    BYTES_OFFSET_FETCH_OK[0] = ok
    return ok, {"history": h, "result": res, "requests_sent": len(obs[0]["pump"]["reqs"])}


def group_form(rnd, api=None):
    """group names are accepted as text or bytes everywhere (client.py _coerce_consumer_group)"""
    return "bytes" if rnd.random() < 0.35 else None


def gen_send(rnd, W, api=None, maxp=6, fail=None, many=False):
    api = api or rnd.choice(["direct", "direct", "offset", "produce", "fetch", "fetch", "offset_fetch", "offset_commit"])
    n = rnd.choice([2, 3, 4, 5, 6, 8, maxp, maxp + 2]) if many else rnd.choice([1, 1, 2, 3, 4, maxp, maxp + 2])
    keys = W.payload_keys(n)
    group = None
    if api in ("offset_fetch", "offset_commit"):
        group = rnd.randint(0, 2)
    elif api == "direct" and rnd.random() < 0.25:
        group = rnd.randint(0, 2)
    if api != "direct" or rnd.random() < 0.8:
        keys = dedup(keys)
    expect = True
    if api in ("produce", "direct") and rnd.random() < 0.15:
        expect = False
    op = {"op": "send", "api": api, "group": group, "fail": (rnd.random() < 0.5) if fail is None else fail,
          "expect": expect, "payloads": [list(k) for k in keys], "plan": W.plan(group)}
    if group is not None:
        op["group_form"] = group_form(rnd, api)
    return op


def chaos(rnd, plan, W, heavy=False):
    """arbitrary environment on top of an honest plan: silent brokers, refused connects, bootstrap outcomes,
    broker error codes, answers that are not what was asked, stale or untruthful metadata"""
    r = rnd.random
    nodes = sorted(W.brokers) + [n for n in range(1, 7) if n not in W.brokers]
    if r() < (0.5 if heavy else 0.25):
        plan["bad"] = {str(n): "silent" for n in nodes if r() < 0.35}
    if r() < 0.2:
        plan["flaky"] = [n for n in nodes if r() < 0.4]
    if r() < 0.15:
        plan["blackhole"] = [n for n in nodes if r() < 0.3]
    if r() < 0.2:
        plan["fail_first"] = rnd.randint(1, 3)
    if r() < 0.5:
        plan["boot"] = [rnd.choice([0, 0, 1, 2, 5]) for _ in range(rnd.randint(0, 4))]
    if r() < (0.3 if heavy else 0.1):
        plan["boot_default"] = rnd.choice([0, 2, 5])
    if r() < 0.3:
        errs = {}
        for t in W.topics:
            for p in W.topics[t]:
                if r() < 0.3:
                    errs["%d:%d" % (t, p)] = rnd.choice([1, 3, 6, 6, 7, 14, 15, 16, 5])
        plan["errs"] = errs
    if r() < (0.25 if heavy else 0.08):
        plan["resp_mode"] = {str(n): rnd.choice(["reverse", "drop_last", "extra", "empty"]) for n in nodes if r() < 0.5}
        plan["extra_resp"] = [rnd.randint(0, UNIVERSE), rnd.randint(0, 4), rnd.choice([0, 0, 6, 3]), 99]
    if r() < 0.1:
        plan.pop("live_addrs", None)
    if r() < 0.1:
        plan.pop("leaders", None)
    if r() < 0.06:
        # untruthful metadata: a leader that is not among the brokers of the response (KeyError corner)
        for k, raw in list(plan.get("meta_by_topic", {}).items()):
            if raw["topics"] and raw["topics"][0][2] and r() < 0.5:
                raw = copy.deepcopy(raw)
                te, t, parts = raw["topics"][0]
                parts[rnd.randrange(len(parts))] = (0, parts[0][1], 77)
                raw["topics"][0] = (te, t, parts)
                plan["meta_by_topic"][k] = raw
    if r() < 0.06:
        # duplicated entries on the wire (the decoder keeps the last)
        for k, raw in list(plan.get("meta_by_topic", {}).items()):
            if r() < 0.5:
                raw = copy.deepcopy(raw)
                raw["brokers"] = raw["brokers"] + [(b[0], b[1] + 50, b[2]) for b in raw["brokers"][:1]]
                raw["topics"] = raw["topics"] + raw["topics"][:1]
                plan["meta_by_topic"][k] = raw
    if plan.get("metas") and r() < 0.08:
        # a response that names NO broker (client.py:540: then nothing may be closed, even on a full refresh)
        raw = copy.deepcopy(plan["metas"][0])
        raw["brokers"] = []
        if r() < 0.7:
            raw["topics"] = [(te, t, [(pe, p, -1) for pe, p, _l in parts]) for te, t, parts in raw["topics"]]
        plan["metas"] = [raw]
    if r() < 0.04:
        plan["meta_by_topic"] = {}
        plan["meta_default"] = {"brokers": [], "topics": []}
    if r() < 0.03:
        plan["close_try"] = rnd.randint(0, 2)
        plan["close_flavour"] = rnd.choice([3, 4])
    return plan


def gen_hosts(rnd):
    n = rnd.randint(1, 4)
    hs = [(rnd.randint(1, 12), rnd.choice([9092, 9092, 9093, 1234])) for _ in range(n)]
    if rnd.random() < 0.3:
        hs.append(hs[0])
    return hs


def vanish_step(rnd, W, ops, before):
    """a KNOWN topic lost partitions / was deleted / reports an error: refresh it (the answer lists fewer or no
    partitions), then ask for a partition the client knew before"""
    lost = [(t, p) for t, ps in before.items() for p in ps
            if t not in W.topics or t in W.hidden or p not in W.topics[t] or W.topics[t][p] == -1]
    if not lost:
        return
    t, p = rnd.choice(lost)
    full = rnd.random() < 0.3
    pl = W.plan()
    pl["metas"] = [W.raw_meta([] if full else [t])]
    ops.append({"op": "meta", "topics": [] if full else [t], "plan": pl})
    keys = dedup([(t, p)] + W.payload_keys(rnd.randint(0, 2)))
    rnd.shuffle(keys)
    ops.append({"op": "send", "api": rnd.choice(["direct", "fetch", "offset", "produce"]), "group": None,
                "fail": rnd.random() < 0.5, "expect": True, "payloads": [list(k) for k in keys], "plan": W.plan()})


def gen_history(rnd, flavour="mixed", nops=None):
    """-> history dict {"hosts", "form", "universe", "seed", "ops"}"""
    W = World(rnd)
    hosts = W.boot_hosts() if rnd.random() < 0.85 else gen_hosts(rnd)
    form = rnd.choice(["tuples", "tuples", "string", "strings", "bytes"])
    ops = []
    nops = nops or rnd.randint(4, 12)
    heavy = flavour == "chaos"
    honest = flavour == "honest"
    if rnd.random() < 0.6:
        ops.append({"op": "meta", "topics": [], "plan": W.plan()})
    gone_before = {t: sorted(W.topics[t]) for t in W.topics}
    while len(ops) < nops:
        x = rnd.random()
        if x < 0.42:
            op = gen_send(rnd, W)
        elif x < 0.58:
            ts = [] if rnd.random() < 0.4 else [rnd.randint(0, UNIVERSE) for _ in range(rnd.randint(1, 3))]
            pl = W.plan()
            pl["metas"] = [W.raw_meta(ts)]
            op = {"op": "meta", "topics": ts, "plan": pl}
        elif x < 0.64:
            g = rnd.randint(0, 2)
            op = {"op": "coord", "group": g, "group_form": group_form(rnd), "plan": W.plan(g)}
            if not honest and rnd.random() < 0.3:
                op["plan"]["coord_default"] = [rnd.choice([15, 14, 16]), -1, 0, 0]
        elif x < 0.69:
            g = rnd.randint(0, 2)
            op = {"op": "sendcoord", "group": g, "group_form": group_form(rnd), "tag": rnd.randint(1, 50), "plan": W.plan(g)}
        elif x < 0.83:
            name, dropped = W.fault(extended=True)
            for n in dropped:
                if rnd.random() < 0.7:
                    ops.append({"op": "drop", "node": n})
            if name == "kill_broker" and rnd.random() < 0.6:
                ops.append({"op": "meta", "topics": [], "plan": W.plan()})      # full refresh: the dead broker's client goes
            if name in ("delete_topic", "topic_trouble", "resize_topic") and rnd.random() < 0.6:
                vanish_step(rnd, W, ops, gone_before)
            gone_before = {t: sorted(W.topics[t]) for t in W.topics}
            continue
        elif x < 0.87:
            op = {"op": "reset_topics", "topics": [rnd.randint(0, UNIVERSE) for _ in range(rnd.randint(0, 2))]}
        elif x < 0.89:
            op = {"op": "reset_all"}
        elif x < 0.92:
            op = {"op": "reset_groups", "groups": [rnd.randint(0, 2) for _ in range(rnd.randint(0, 2))]}
        elif x < 0.95:
            op = {"op": "drop", "node": rnd.randint(1, 6)}
        elif x < 0.98:
            op = {"op": "hosts", "hosts": gen_hosts(rnd), "form": rnd.choice(["tuples", "string", "strings", "bytes"])}
        else:
            op = {"op": "close"}
        if "plan" in op and not honest:
            chaos(rnd, op["plan"], W, heavy)
        ops.append(op)
    return {"hosts": [list(h) for h in hosts], "form": form, "universe": UNIVERSE, "seed": rnd.randint(0, 10 ** 6),
            "ops": ops}


def gen_routing_history(rnd):
    """C07: one metadata load, then sends with many payloads over several brokers and every kind of partial failure"""
    W = World(rnd, nbrokers=rnd.choice([1, 2, 3, 3, 4, 5]), ntopics=rnd.randint(1, UNIVERSE))
    hosts = W.boot_hosts()
    for t in W.topics:                       # some leaderless partitions
        for p in W.topics[t]:
            if rnd.random() < 0.06:
                W.topics[t][p] = -1
    ops = []
    if rnd.random() < 0.7:
        ops.append({"op": "meta", "topics": [], "plan": W.plan()})
    for _ in range(rnd.randint(2, 6)):
        op = gen_send(rnd, W, api=rnd.choice(["direct", "direct", "offset", "produce", "fetch", "fetch", "offset_fetch", "offset_commit"]),
                      maxp=10, many=True)
        pl = op["plan"]
        nodes = sorted(W.brokers)
        x = rnd.random()
        if x < 0.5:
            sub = [n for n in nodes if rnd.random() < 0.4]
            pl["bad"] = {str(n): "silent" for n in sub}
        if rnd.random() < 0.2:
            pl["blackhole"] = [n for n in nodes if rnd.random() < 0.3]
        if rnd.random() < 0.2:
            pl["flaky"] = [n for n in nodes if rnd.random() < 0.5]
        if rnd.random() < 0.25:
            pl["errs"] = {"%d:%d" % (t, p): rnd.choice([1, 3, 6, 7, 16]) for t in W.topics for p in W.topics[t] if rnd.random() < 0.25}
        if rnd.random() < 0.1:
            pl["resp_mode"] = {str(n): rnd.choice(["reverse", "drop_last", "extra", "empty"]) for n in nodes if rnd.random() < 0.5}
            pl["extra_resp"] = [rnd.randint(0, UNIVERSE), rnd.randint(0, 4), 0, 99]
        ops.append(op)
        if rnd.random() < 0.25:
            name, dropped = W.fault()
            for n in dropped:
                ops.append({"op": "drop", "node": n})
    return {"hosts": [list(h) for h in hosts], "form": "tuples", "universe": UNIVERSE,
            "seed": rnd.randint(0, 10 ** 6), "ops": ops}


def gen_fallback_history(rnd):
    """C07: broker-agnostic requests against every mix of connected / known / bootstrap hosts and outcomes"""
    W = World(rnd, nbrokers=rnd.randint(1, 5), ntopics=rnd.randint(1, 3))
    hosts = W.boot_hosts()
    ops = []
    if rnd.random() < 0.75:
        ops.append({"op": "meta", "topics": [], "plan": W.plan()})
        if rnd.random() < 0.7:     # connect to some of the brokers
            ops.append(gen_send(rnd, W, api="direct", maxp=8))
    for _ in range(rnd.randint(2, 5)):
        pl = W.plan()
        nodes = sorted(W.brokers)
        mode = rnd.random()
        if mode < 0.35:
            pl["bad"] = {str(n): "silent" for n in nodes}            # every known broker fails
        else:
            pl["bad"] = {str(n): "silent" for n in nodes if rnd.random() < 0.5}
        b = rnd.random()
        if b < 0.3:
            pl["boot_default"] = rnd.choice([0, 2, 5])                 # every bootstrap host fails
        pl["boot"] = [rnd.choice([0, 0, 2, 5, 1]) for _ in range(rnd.randint(0, 4))]
        if rnd.random() < 0.5:
            pl.pop("live_addrs", None)
        kind = rnd.random()
        if kind < 0.6:
            ts = [] if rnd.random() < 0.3 else [rnd.randint(0, UNIVERSE)]
            pl["metas"] = [W.raw_meta(ts)]
            ops.append({"op": "meta", "topics": ts, "plan": pl})
        elif kind < 0.8:
            g = rnd.randint(0, 2)
            pl.update({k: v for k, v in W.plan(g).items() if k in ("coord_of", "coord_default")})
            ops.append({"op": "coord", "group": g, "group_form": group_form(rnd), "plan": pl})
        else:
            op = gen_send(rnd, W)
            op["plan"].update({k: v for k, v in pl.items() if k in ("bad", "boot", "boot_default")})
            ops.append(op)
        x = rnd.random()
        if x < 0.2:
            ops.append({"op": "drop", "node": rnd.choice(nodes)})
        elif x < 0.3:
            ops.append({"op": "hosts", "hosts": gen_hosts(rnd), "form": "tuples"})
        elif x < 0.4:
            name, dropped = W.fault()
            for n in dropped:
                ops.append({"op": "drop", "node": n})
    return {"hosts": [list(h) for h in hosts], "form": rnd.choice(["tuples", "string"]), "universe": UNIVERSE,
            "seed": rnd.randint(0, 10 ** 6), "ops": ops}


def gen_coord_readdress_history(rnd):
    """C07/C08: a FindCoordinator answer is the FIRST to tell the client that a node it already knows (from topic
    metadata) listens at a new address - same node id, other host and/or port - with and without a live connection to
    the node, the lookup being a call of its own or nested in the group request; then group / offset requests."""
    W = World(rnd, nbrokers=rnd.randint(2, 4), ntopics=rnd.randint(1, 3))
    hosts = W.boot_hosts()
    g = rnd.randint(0, 2)
    n = rnd.choice(sorted(W.brokers))
    W.coords[g] = n
    W.anchor = rnd.choice([m for m in sorted(W.brokers) if m != n])
    if W.brokers[W.anchor] not in hosts:
        hosts.append(W.brokers[W.anchor])
    gform = group_form(rnd)
    ops = [{"op": "meta", "topics": [], "plan": W.plan()}]                  # node n known at address A
    keys = dedup(W.payload_keys(rnd.choice([1, 2, 3]), unknown=0.0))

    def group_request():
        kind = rnd.choice(["offset_commit", "offset_fetch", "sendcoord", "direct"])
        if kind == "sendcoord":
            return {"op": "sendcoord", "group": g, "group_form": gform, "tag": rnd.randint(1, 50), "plan": W.plan(g)}
        return {"op": "send", "api": kind, "group": g, "group_form": gform, "fail": rnd.random() < 0.5, "expect": True,
                "payloads": [list(k) for k in keys], "plan": W.plan(g)}
    connected = rnd.random() < 0.6
    if connected:
        # make the client connect to n (a request to the partitions n leads, or a first group request)
        mine = [(t, p) for t in W.topics for p, l in W.topics[t].items() if l == n]
        if mine and rnd.random() < 0.6:
            ops.append({"op": "send", "api": "direct", "group": None, "fail": False, "expect": True,
                        "payloads": [list(k) for k in mine[:2]], "plan": W.plan()})
        else:
            ops.append(group_request())
    W.readdress(n, rnd.choice(["port", "host", "both"]))
    if connected and rnd.random() < 0.8:
        ops.append({"op": "drop", "node": n})                               # ... without a live connection any more
    if rnd.random() < 0.4:
        ops.append({"op": "reset_groups", "groups": [g]})
    if rnd.random() < 0.5:
        ops.append({"op": "coord", "group": g, "group_form": gform, "plan": W.plan(g)})   # the lookup as a call of its own
    for _ in range(rnd.randint(1, 3)):
        ops.append(group_request())
    if rnd.random() < 0.3:
        ops.append(gen_send(rnd, W))
    return {"hosts": [list(h) for h in hosts], "form": "tuples", "universe": UNIVERSE, "seed": rnd.randint(0, 10 ** 6), "ops": ops}


def gen_acks0_history(rnd):
    """C08/C07: produce with acks=0 (no decoder, nothing to wait for) whose broker send FAILS - the leader's broker died
    or restarted elsewhere, the request is never written - then the next produce: the failed send must surface as
    FailedPayloadsError, empty the cache, and the next call must look the leaders up again and reach the new leader"""
    W = World(rnd, nbrokers=rnd.randint(2, 4), ntopics=rnd.randint(1, 3))
    W.anchor = rnd.choice(sorted(W.brokers))
    hosts = W.boot_hosts()
    if W.brokers[W.anchor] not in hosts:
        hosts.append(W.brokers[W.anchor])
    ops = [{"op": "meta", "topics": [], "plan": W.plan()}]
    keys = dedup(W.payload_keys(rnd.choice([1, 2, 3, 4]), unknown=0.0))

    def produce(expect):
        api = rnd.choice(["produce", "produce", "direct"])
        return {"op": "send", "api": api, "group": None, "fail": rnd.random() < 0.5, "expect": expect,
                "payloads": [list(k) for k in keys], "plan": W.plan()}
    if rnd.random() < 0.6:
        ops.append(produce(rnd.random() < 0.5))                    # connections to the leaders exist
    victims = sorted(set(W.topics[t][p] for t, p in keys if W.topics[t][p] != W.anchor and W.topics[t][p] in W.brokers))
    if victims:
        n = rnd.choice(victims)
        if rnd.random() < 0.5 and len(W.brokers) > 2:
            del W.brokers[n]                                       # the broker died; leadership moves
            for t in W.topics:
                for p in W.topics[t]:
                    if W.topics[t][p] == n:
                        W.topics[t][p] = rnd.choice(sorted(W.brokers))
        else:
            W.readdress(n, rnd.choice(["port", "host", "both"]))   # restarted elsewhere
            if rnd.random() < 0.5:
                W.move_leaders()
        ops.append({"op": "drop", "node": n})
    else:
        W.move_leaders()
    ops.append(produce(False))                                     # acks=0: the send to the dead address fails unwritten
    for _ in range(rnd.randint(1, 2)):
        ops.append(produce(rnd.random() < 0.4))
    return {"hosts": [list(h) for h in hosts], "form": "tuples", "universe": UNIVERSE, "seed": rnd.randint(0, 10 ** 6), "ops": ops}


def gen_failover(rnd, attempts=None):
    """C08 recovery: an honest cluster; warm up, inject a finite sequence of faults (leader moves, broker deaths,
    restarts at new addresses, coordinator moves), then retry ONE request until it succeeds.
    The ops after the last fault are marked {"retry": i}; hist["failover_bound"] is the number of attempts that may
    fail: 1 when errors are delivered (fail_on_error=False heals every stale topic of the call at once), the number of
    distinct topics of the request when they are raised (fail_on_error=True heals the first stale topic only)."""
    W = World(rnd, nbrokers=rnd.randint(2, 5), ntopics=rnd.randint(1, 3))
    W.anchor = rnd.choice(sorted(W.brokers))          # one broker never dies or moves: the cluster stays reachable
    hosts = W.boot_hosts()
    anchor_is_boot = rnd.random() < 0.7
    if anchor_is_boot and W.brokers[W.anchor] not in hosts:
        hosts.append(W.brokers[W.anchor])
    ops = []
    if not anchor_is_boot or rnd.random() < 0.8:
        ops.append({"op": "meta", "topics": [], "plan": W.plan()})       # the anchor becomes a KNOWN broker
    api = rnd.choice(PUBLIC_APIS)     # (the private _send_broker_aware_request does not go through _handle_responses)
    keys = dedup(W.payload_keys(rnd.choice([1, 2, 3, 5]), unknown=0.0))
    group = rnd.randint(0, 2) if api in ("offset_fetch", "offset_commit") else None
    retry_fail = rnd.random() < 0.5
    bound = len(set(k[0] for k in keys)) if retry_fail else 1
    if group is not None:
        bound = max(bound, 1)
    gform = group_form(rnd, api)

    def send(fail=True):
        return {"op": "send", "api": api, "group": group, "group_form": gform, "fail": fail, "expect": True,
                "payloads": [list(k) for k in keys], "plan": W.plan(group)}
    for _ in range(rnd.randint(0, 2)):
        ops.append(send(rnd.random() < 0.5))
    for _ in range(rnd.randint(1, 4)):
        name, dropped = W.fault()
        if name == "restart_broker" and dropped and rnd.random() < 0.4:
            # the client learns the new address while the old connection is still up; the connection dies afterwards
            ops.append({"op": "meta", "topics": [], "plan": W.plan()})
        for n in dropped:
            ops.append({"op": "drop", "node": n})
        if rnd.random() < 0.3:
            ops.append(send(rnd.random() < 0.5))          # an attempt while the cluster is still changing
    nfault = len(ops)
    for i in range(attempts or bound + 2):
        op = send(retry_fail)
        op["retry"] = i
        ops.append(op)
    return {"hosts": [list(h) for h in hosts], "form": "tuples", "universe": UNIVERSE,
            "seed": rnd.randint(0, 10 ** 6), "ops": ops, "failover_from": nfault, "failover_bound": bound}


# ------------------------------------------------------------------ _normalize_hosts on strings (case kind 2)
def gen_host_items(rnd):
    names = ["h", "kafka1", "Kafka1", "a.b", "10.0.0.7", "z", "", "h2", "H"]
    items = []
    for _ in range(rnd.randint(0, 7)):
        h = rnd.choice(names)
        port = rnd.choice([9092, 9092, 1, 65535, 1234, 9093])
        k = rnd.random()
        ws = lambda: rnd.choice(["", "", " ", "  ", "\t", " \n", "\x1f", "\x1c ", "\x0b"])
        if k < 0.35:
            items.append([0, ws() + h + ws(), 0])
        elif k < 0.7:
            items.append([1, ws() + h + ws(), port])
        else:
            items.append([2, h, port])
    if items and rnd.random() < 0.4:
        items.append(list(rnd.choice(items)))
    return items


def hosts_case(items):
    c = [2, len(items)]
    for kind, h, port in items:
        c += [kind] + CL.lp([ord(ch) for ch in h]) + [port]
    return c


def impl_hosts(items, rnd=None, as_string=False):
    from afkak.client import _normalize_hosts
    arg = []
    for kind, h, port in items:
        if kind == 0:
            arg.append(h)
        elif kind == 1:
            pad = "" if rnd is None else rnd.choice(["", " "])
            arg.append("%s:%s%d%s" % (h, pad, port, pad))
        else:
            arg.append((h, port if rnd is None or rnd.random() < 0.7 else str(port)))
        if kind != 2 and rnd is not None and rnd.random() < 0.3:
            arg[-1] = arg[-1].encode()
    if as_string:
        arg = ",".join(a if isinstance(a, str) else a.decode() for a in arg)
    res = _normalize_hosts(arg)
    out = [len(res)]
    for h, p in res:
        out += CL.lp([ord(ch) for ch in h]) + [p]
    return out, res


# ------------------------------------------------------------------ execution
def run(hist):
    """-> (case line, impl trace, per-op observations, sim)"""
    return CL.run_history([tuple(h) for h in hist["hosts"]], hist["universe"],
                          copy.deepcopy(hist["ops"]), hist["seed"], hist.get("form", "tuples"))


def decode_raw(raw):
    """dict semantics of the decoded metadata response: the last entry for a key wins"""
    raw = raw or {"brokers": [], "topics": []}
    brokers = {}
    for n, h, p in raw["brokers"]:
        brokers[n] = (h, p)
    topics = {}
    for terr, t, parts in raw["topics"]:
        d = {}
        for _perr, p, leader in parts:
            d[p] = leader
        topics[t] = (terr, d)
    return brokers, topics


def raw_truthful(raw):
    brokers, topics = decode_raw(raw)
    return all(l == -1 or l in brokers for _e, d in topics.values() for l in d.values())


class Tracker(object):
    """what the client has been told so far (public knowledge: the responses it received)"""

    def __init__(self, hosts):
        self.known = set()           # node ids ever named by a merged response (client.py:974 only ever adds)
        self.boot = sorted(set((h, p) for h, p in hosts))
        self.addr_of = {}            # node -> address the LATEST response naming the node gave
        self.told = {}               # (topic, partition) -> leader (-1: none) as the LAST metadata answer for the topic said
        self.unsure = set()          # topics whose last answer was untruthful (the merge stopped half-way)

    def merged(self, raw):
        brokers, topics = decode_raw(raw)
        self.known.update(brokers)
        for n, a in brokers.items():
            self.addr_of[n] = tuple(a)
        truthful = raw_truthful(raw)
        for t, (_err, parts) in topics.items():
            for k in [k for k in self.told if k[0] == t]:
                del self.told[k]
            if truthful:
                self.unsure.discard(t)
                for p, l in parts.items():
                    self.told[(t, p)] = l
            else:
                self.unsure.add(t)


def topic_view(view, t):
    return (view["terrs"].get(t), view["tparts"].get(t), sorted((k, v) for k, v in view["t2b"].items() if k[0] == t))


# ------------------------------------------------------------------ monitors
def mon_merge(ob, bad):
    """C08_merge_exact / _merge_frame / _full_refresh_closes on one load_metadata_for_topics call"""
    op, before, after = ob["op"], ob["before"], ob["after"]
    ld, code = ob["load"], ob["code"]
    if after_closed(ob):
        return
    if code not in (1, 5):
        # no response was merged: the topic caches are untouched
        for t in set(before["tparts"]) | set(after["tparts"]) | set(before["terrs"]) | set(after["terrs"]):
            if topic_view(before, t) != topic_view(after, t):
                bad.append(("C08_merge_frame", "cache changed by a metadata load that merged nothing", t))
        return
    brokers, topics = decode_raw(ld["resp"])
    full = not op["topics"]
    for t in set(before["tparts"]) | set(after["tparts"]) | set(before["terrs"]) | set(after["terrs"]) | set(k[0] for k in after["t2b"]):
        if t not in topics and topic_view(before, t) != topic_view(after, t):
            bad.append(("C08_merge_frame", "topic not in the response changed", t, topic_view(before, t), topic_view(after, t)))
    if before["g2c"] != after["g2c"]:
        bad.append(("C08_merge_frame", "coordinator cache changed by a metadata merge"))
    if code == 1:
        for t, (terr, parts) in topics.items():
            want_parts = sorted(parts) if parts else None
            want_t2b = sorted(((t, p), (None if l == -1 else (l,) + tuple(brokers[l]))) for p, l in parts.items())
            got = topic_view(after, t)
            if got != (terr, want_parts, want_t2b):
                bad.append(("C08_merge_exact", "topic view differs from the response", t, got, (terr, want_parts, want_t2b)))
            if t in after["merr"] and after["merr"][t] != terr:
                bad.append(("C08_merge_exact", "metadata_error_for_topic differs", t, after["merr"][t], terr))
    # broker clients
    tried = set(x[1] for x in ld["tries"] if x[0] == 0)
    remove = full and len(brokers) > 0
    base = set(before["clients"]) | tried
    want = set(n for n in base if n in brokers) if remove else base
    if set(after["clients"]) != want:
        bad.append(("C08_full_refresh_closes", "broker clients after the merge", sorted(after["clients"]), sorted(want)))
    if sorted(ob["gone"]) != sorted(base - want):
        bad.append(("C08_full_refresh_closes", "closed clients", ob["gone"], sorted(base - want)))
    for n, (h, p, _c) in after["clients"].items():
        if n in brokers and (h, p) != tuple(brokers[n]):
            bad.append(("C08_full_refresh_closes", "client does not aim at the response's address", n, (h, p), brokers[n]))
        if n not in brokers and n in before["clients"] and (h, p) != before["clients"][n][:2]:
            bad.append(("C08_full_refresh_closes", "client re-targeted without being named", n))


def after_closed(ob):
    return bool(ob["after"].get("closed"))


def cleared_topic(view, t):
    return t not in view["tparts"] and not any(k[0] == t for k in view["t2b"])


def all_cleared(view):
    return not view["tparts"] and not view["t2b"] and not view["terrs"] and not view["g2c"]


def mon_invalidate(ob, bad):
    """C08_invalidate on one public send_*_request"""
    op, after = ob["op"], ob["after"]
    # a failed send (a per-broker request that was never answered / never written) invalidates the whole cached routing,
    # with a decoder or without (acks=0), through the private sender as well: the call must end in FailedPayloadsError
    # and leave nothing cached, so that the next call looks the leaders up again
    if op.get("op") == "send" and not after_closed(ob) and not ob["before"].get("closed"):
        failed_reqs = [q for q in ob["pump"]["reqs"] if q["code"] != 1]
        res0 = ob["result"]
        if failed_reqs and res0["kind"] in ("ok", "failed"):
            if res0["kind"] == "ok":
                bad.append(("C08_invalidate", "a per-broker send failed, yet the call reported success (no FailedPayloadsError)",
                            [q["node"] for q in failed_reqs], "acks=0" if not op.get("expect", True) else "acks=1"))
            if not all_cleared(after):
                bad.append(("C08_invalidate", "a per-broker send failed, yet cached routing survived (the next call will not re-look-up)",
                            [q["node"] for q in failed_reqs], sorted(after["t2b"])[:4]))
    if op.get("api") in (None, "direct"):
        return
    res = ob["result"]
    answers = [r for q in ob["pump"]["reqs"] if q["code"] == 1 for r in q["resps"]]
    if res["kind"] == "ok" and not op["fail"]:
        for (t, p, e, _g) in res["responses"]:
            if e in TOPIC_ERRS and not cleared_topic(after, t):
                bad.append(("C08_invalidate", "topic still cached after error", t, e))
            if e in GROUP_ERRS and op["group"] is not None and op["group"] in after["g2c"]:
                bad.append(("C08_invalidate", "coordinator still cached after error", op["group"], e))
    elif res["kind"] == "error" and res["code"][0] == 2:
        e = res["code"][1]
        if e in TOPIC_ERRS and not any(r[2] == e and cleared_topic(after, r[0]) for r in answers):
            bad.append(("C08_invalidate", "raised topic error left its topic cached", e))
        if e in GROUP_ERRS and op["group"] is not None and op["group"] in after["g2c"]:
            bad.append(("C08_invalidate", "raised coordinator error left the coordinator cached", e))
    elif res["kind"] == "failed":
        if not all_cleared(after):
            bad.append(("C08_invalidate", "cache not empty after FailedPayloadsError"))


def mon_reresolve(ob, bad):
    """C08_reresolve / C08_cached_no_request: the first payload without a cached leader makes the client ask for
    that topic's metadata before anything else; if every payload has a cached leader nothing is asked"""
    op, before = ob["op"], ob["before"]
    if op["op"] != "send" or op.get("group") is not None or not op["payloads"] or before.get("closed"):
        return
    loads = ob["pump"]["loads"]
    miss = [tuple(k) for k in op["payloads"] if before["t2b"].get(tuple(k)) is None]
    if not miss:
        if loads:
            bad.append(("C08_cached_no_request", "metadata requested although every leader was cached", loads[0].get("asked")))
        return
    if not loads:
        bad.append(("C08_reresolve", "no metadata request for an uncached partition", miss[0]))
    elif loads[0]["kind"] == 0 and loads[0]["asked"] != [miss[0][0]]:
        bad.append(("C08_reresolve", "metadata request for the wrong topic", loads[0]["asked"], miss[0]))


def mon_connect_addr(ob, bad):
    """C08_next_connect_address: a broker client without a live connection dials the address the cache has for
    its node (checked on sends that needed no lookup, so the view before the call is the cache at send time)"""
    op, before = ob["op"], ob["before"]
    if op["op"] != "send" or ob["pump"]["loads"] or before.get("closed"):
        return
    for q in ob["pump"]["reqs"]:
        c = before["clients"].get(q["node"])
        if c is not None and not c[2] and tuple(q["addr"]) != tuple(c[:2]):
            bad.append(("C08_next_connect_address", "unconnected broker client dialled another address than its target",
                        q["node"], q["addr"], c[:2]))


def mon_told(ob, tr, bad):
    """what the metadata ANSWERS said (not the client's own cache view):
    - C07_routing: a payload is only sent to the node the LAST metadata answer for its topic named as leader of its
      partition (checked for payloads whose topic no lookup of this very call touched);
    - C07_request_address / C08_next_connect_address: a broker client without a live connection dials the address the
      LATEST response naming its node gave (checked on calls without lookups)."""
    op, before = ob["op"], ob["before"]
    if op["op"] not in ("send", "sendcoord") or before.get("closed"):
        return
    loads = ob["pump"]["loads"]
    reqs = ob["pump"]["reqs"]
    # every lookup of a call precedes its fan-out (client.py resolves all payloads first), so the address a node is
    # dialled at is judged against the latest response naming the node INCLUDING the answers of this call's own lookups
    # (metadata answers and FindCoordinator answers alike); nodes that a lookup of this call itself tried (and thereby
    # may have connected) are left out
    addr_of = dict(tr.addr_of)
    tried = set()
    for ld in loads:
        tried.update(x[1] for x in ld["tries"] if x[0] == 0)
        if ld.get("resp") is None:
            continue
        if ld.get("kind") == 0:
            for n, a in decode_raw(ld["resp"])[0].items():
                addr_of[n] = tuple(a)
        elif ld.get("kind") == 1 and ld["resp"][0] == 0:
            addr_of[ld["resp"][1]] = (ld["resp"][2], ld["resp"][3])
    for q in reqs:
        c = before["clients"].get(q["node"])
        want = addr_of.get(q["node"])
        if q["node"] in tried or want is None or (c is not None and c[2]):
            continue
        if tuple(q["addr"]) != tuple(want):
            what = "an unconnected broker client dialled another address than the latest response gave for its node"
            if op.get("group") is not None:
                what = "the request for the group was dialled at another address than the latest coordinator lookup / metadata answer named for the coordinator"
            bad.append(("C07_request_address", what, q["node"], list(q["addr"]), list(want)))
    if op["op"] != "send" or op.get("group") is not None:
        return
    touched = set()
    for ld in loads:
        if ld.get("kind") == 0 and ld.get("resp") is not None:
            touched.update(decode_raw(ld["resp"])[1])
        elif ld.get("kind") == 0:
            touched.update(ld.get("asked") or [])
    keys = [tuple(k) for k in op["payloads"]]
    tags = ob["tags"]
    for q in reqs:
        if q["tags"] is None:
            continue
        for tg in q["tags"]:
            if tg not in tags:
                continue
            k = keys[tags.index(tg)]
            if k[0] in touched or k[0] in tr.unsure:
                continue
            if tr.told.get(k, None) != q["node"]:
                bad.append(("C07_routing", "payload sent to a node the last metadata answer for its topic does not name as its leader",
                            list(k), q["node"], tr.told.get(k, "partition not in the last answer")))


def expected_nodes(ob):
    """leader / coordinator of every payload under the cache at ITS resolution time: the view before the op,
    updated by the responses of the loads the op performed, in order (None = cannot be determined)"""
    op, before = ob["op"], ob["before"]
    loads = list(ob["pump"]["loads"])
    out = []
    if op.get("group") is not None:
        g = op["group"]
        cur = before["g2c"].get(g)
        cur = cur[0] if cur else None
        for _k in op["payloads"]:
            if cur is None:
                if not loads:
                    return out
                ld = loads.pop(0)
                c = ld["resp"]
                if not c or c[0] != 0:
                    return out
                cur = c[1]
            out.append(cur)
        return out
    cache = dict(before["t2b"])
    for k in op["payloads"]:
        k = tuple(k)
        if cache.get(k) is None:
            if not loads:
                return out
            ld = loads.pop(0)
            if ld["resp"] is None or ld["kind"] != 0:
                return out
            brokers, topics = decode_raw(ld["resp"])
            if not raw_truthful(ld["resp"]):
                return out
            for t, (_e, parts) in topics.items():
                for kk in [kk for kk in cache if kk[0] == t]:
                    del cache[kk]
                for p, l in parts.items():
                    cache[(t, p)] = None if l == -1 else (l,) + tuple(brokers[l])
            if cache.get(k) is None:
                return out
        out.append(cache[k][0])
    return out


def mon_routing(ob, bad):
    """C07_routing, C07_order, C07_accounting on one broker-aware send"""
    op = ob["op"]
    if op["op"] == "sendcoord":
        return mon_sendcoord_routing(ob, bad)
    if op["op"] != "send":
        return
    res = ob["result"]
    reqs = ob["pump"]["reqs"]
    keys = [tuple(k) for k in op["payloads"]]
    tags = ob["tags"]
    mon_coordinator_found(ob, bad)
    if res["kind"] not in ("ok", "failed"):
        if reqs and not (res["kind"] == "error" and res["code"][0] in (2, 5)) and not after_closed(ob):
            bad.append(("C07_routing", "requests were sent although the call failed before the fan-out", res))
        if not reqs:
            return
    exp = expected_nodes(ob)
    nodes = [q["node"] for q in reqs]
    if len(set(nodes)) != len(nodes):
        bad.append(("C07_routing", "two requests to one broker in one call", nodes))
    if len(exp) == len(keys):
        for q in reqs:
            want = [tag for tag, n in zip(tags, exp) if n == q["node"]]
            if q["tags"] is None:
                continue                       # never written (connection attempt unanswered): not visible
            got = q["tags"] if op["api"] == "direct" else sorted(q["tags"])
            if got != (want if op["api"] == "direct" else sorted(want)):
                bad.append(("C07_routing", "request does not carry exactly its broker's payloads", q["node"], got, want))
        if sorted(set(exp)) != sorted(nodes) and not after_closed(ob):
            bad.append(("C07_routing", "set of brokers asked differs from the set of leaders", sorted(nodes), sorted(set(exp))))
    # order: responses in payload order (first answer per key kept, later answers for the key overwrite)
    if res["kind"] in ("ok", "failed") and op.get("expect", True):
        acc = {}
        for q in reqs:
            if q["code"] == 1:
                for (t, p, e, g) in q["resps"]:
                    acc[(t, p)] = (t, p, e, g if op["api"] != "offset_commit" else 0)
        want = [acc[k] for k in keys if k in acc]
        got = [tuple(r) for r in res["responses"]]
        if op["api"] == "offset_commit":
            got = [(t, p, e, 0) for t, p, e, _g in got]
        if got != want:
            bad.append(("C07_order", "responses are not the answers in payload order", got, want))
    # accounting: honest answers, duplicate-free payload list
    honest = not (op["plan"].get("resp_mode")) and op.get("expect", True)
    if res["kind"] == "failed" and honest and len(set(keys)) == len(keys):
        rkeys = [(t, p) for t, p, _e, _g in res["responses"]]
        fkeys = [keys[tags.index(tg)] for tg in res["failed"] if tg in tags]
        if sorted(rkeys + fkeys) != sorted(keys) or len(res["failed"]) != len(fkeys):
            bad.append(("C07_accounting", "responses + failed payloads do not partition the payloads", rkeys, fkeys, keys))
        if [k for k in keys if k in rkeys] != rkeys:
            bad.append(("C07_accounting", "responses not in payload order", rkeys))
        if len(exp) == len(keys):
            want_failed = [tg for q in reqs if q["code"] != 1 for tg, n in zip(tags, exp) if n == q["node"]]
            if res["failed"] != want_failed:
                bad.append(("C07_accounting", "failed payloads are not the failed requests' payloads in order", res["failed"], want_failed))
    if res["kind"] == "ok" and honest and len(set(keys)) == len(keys) and len(exp) == len(keys):
        rkeys = [(t, p) for t, p, _e, _g in res["responses"]]
        if rkeys != keys:
            bad.append(("C07_order", "honest brokers, yet the result is not one response per payload in order", rkeys, keys))
    # acks=0 (no decoder): no responses; FailedPayloadsError exactly when a request could not be written, carrying
    # exactly those requests' payloads
    if not op.get("expect", True) and res["kind"] in ("ok", "failed"):
        failed_reqs = [q for q in reqs if q["code"] != 1]
        if res["responses"]:
            bad.append(("C07_accounting", "acks=0, yet responses were returned", res["responses"]))
        if res["kind"] == "ok" and failed_reqs:
            bad.append(("C07_accounting", "acks=0: a request failed unwritten, yet the call reported success",
                        [q["node"] for q in failed_reqs]))
        if res["kind"] == "failed" and not failed_reqs:
            bad.append(("C07_accounting", "acks=0: FailedPayloadsError although every request was written"))
        if res["kind"] == "failed" and len(exp) == len(keys):
            want_failed = [tg for q in failed_reqs for tg, n in zip(tags, exp) if n == q["node"]]
            if res["failed"] != want_failed:
                bad.append(("C07_accounting", "acks=0: failed payloads are not the unwritten requests' payloads", res["failed"], want_failed))


def mon_coordinator_found(ob, bad):
    """a coordinator that is cached, or whose lookup was just answered without error, is used"""
    op, res, before = ob["op"], ob["result"], ob["before"]
    g = op.get("group")
    if g is None or before.get("closed") or after_closed(ob):
        return
    if res["kind"] == "error" and res["code"] == [4, 13]:
        loads = ob["pump"]["loads"]
        if g in before["g2c"]:
            bad.append(("C07_routing", "CoordinatorNotAvailable although the coordinator was cached", g))
        elif loads and loads[-1].get("kind") == 1 and loads[-1].get("resp") and loads[-1]["resp"][0] == 0:
            bad.append(("C07_routing", "CoordinatorNotAvailable although the coordinator lookup was answered", g, loads[-1]["resp"]))


def mon_sendcoord_routing(ob, bad):
    """C07_coordinator_request: the single request goes to the coordinator the cache names, carrying the payload"""
    op, res, before = ob["op"], ob["result"], ob["before"]
    reqs = ob["pump"]["reqs"]
    mon_coordinator_found(ob, bad)
    if len(reqs) > 1:
        bad.append(("C07_coordinator_request", "more than one request", [q["node"] for q in reqs]))
    exp = expected_nodes({"op": {"group": op["group"], "payloads": [[-1, -1]]}, "before": before, "pump": ob["pump"]})
    if reqs and exp:
        q = reqs[0]
        if q["node"] != exp[0]:
            bad.append(("C07_coordinator_request", "request not sent to the coordinator", q["node"], exp[0]))
        if q["tags"] is not None and q["tags"] != ob["tags"]:
            bad.append(("C07_coordinator_request", "request does not carry the payload", q["tags"]))
    if exp and not reqs and res["kind"] != "error" and not after_closed(ob):
        bad.append(("C07_coordinator_request", "coordinator known, no request", exp))


def mon_keyerror(ob, bad):
    """C07_no_keyerror / C08_reachable_wf: with truthful metadata a KeyError never reaches the caller"""
    code = None
    if ob["op"]["op"] == "meta" and ob.get("code") == 5:
        code = "load_metadata_for_topics failed with KeyError"
    res = ob.get("result")
    if isinstance(res, dict) and res.get("kind") == "error" and res.get("code") in ([4, 16], [4, 17]):
        code = "the call failed with KeyError: " + str(res.get("repr"))[:120]
    if code and all(ld.get("kind") != 0 or ld.get("resp") is None or raw_truthful(ld["resp"]) for ld in loads_of(ob)):
        bad.append(("C07_no_keyerror", code))


def mon_coord(ob, bad):
    """the coordinator cache mirrors the coordinator answer (client.py:614-635) / C08_invalidate for coordinator requests"""
    op, before, after = ob["op"], ob["before"], ob["after"]
    g = op["group"]
    if after_closed(ob):
        return
    others_b = {k: v for k, v in before["g2c"].items() if k != g}
    others_a = {k: v for k, v in after["g2c"].items() if k != g}
    if others_b != others_a:
        bad.append(("C08_coordinator_cache", "another group's coordinator changed", others_b, others_a))
    for t in set(before["tparts"]) | set(after["tparts"]) | set(before["terrs"]) | set(after["terrs"]):
        if topic_view(before, t) != topic_view(after, t) and op["op"] == "coord":
            bad.append(("C08_coordinator_cache", "a coordinator lookup changed the topic cache", t))
    if op["op"] == "coord":
        ld = ob["load"]
        if ob["ok"] == 1:
            c = ld["resp"]
            if after["g2c"].get(g) != (c[1], c[2], c[3]):
                bad.append(("C08_coordinator_cache", "cached coordinator differs from the answer", after["g2c"].get(g), c))
            cl = after["clients"].get(c[1])
            if cl is not None and tuple(cl[:2]) != (c[2], c[3]):
                bad.append(("C08_coordinator_cache", "broker client of the coordinator does not aim at the answer's address", cl, c))
        elif ob["ok"] == 0 and g in after["g2c"]:
            bad.append(("C08_coordinator_cache", "failed coordinator lookup left a coordinator cached", g))
        return
    # sendcoord
    res = ob["result"]
    reqs = ob["pump"]["reqs"]
    if res["kind"] == "error" and res["code"][0] == 2 and res["code"][1] in GROUP_ERRS and g in after["g2c"]:
        bad.append(("C08_invalidate_coordinator_request", "coordinator error left the coordinator cached", res["code"]))
    if res["kind"] == "error" and res["code"] == [4, 18] and reqs:
        # documented deviation (C08_coordinator_failed_send_keeps_cache): the failed send does NOT invalidate
        if after["g2c"].get(g, (None,))[0] != reqs[0]["node"]:
            bad.append(("C08_coordinator_failed_send_keeps_cache", "behaviour changed: the cached coordinator is no longer kept after a failed send",
                        after["g2c"].get(g), reqs[0]["node"]))
    if res["kind"] == "ok" and res["responses"][0][2] == 0 and g not in after["g2c"]:
        bad.append(("C08_coordinator_cache", "successful coordinator request lost the cached coordinator", g))


def mon_reset(ob, bad):
    """reset_topic_metadata / reset_consumer_group_metadata / reset_all_metadata (client.py:274-326)"""
    op, before, after = ob["op"], ob["before"], ob["after"]
    kind = op["op"]
    if before["clients"] != after["clients"]:
        bad.append(("C08_reset", "a reset touched the broker clients"))
    if kind == "reset_all":
        if not all_cleared(after):
            bad.append(("C08_reset", "reset_all_metadata left something cached",
                        {k: after[k] for k in ("tparts", "t2b", "terrs", "g2c") if after[k]}))
        return
    topics = set(op.get("topics", [])) if kind == "reset_topics" else set()
    groups = set(op.get("groups", [])) if kind == "reset_groups" else set()
    for t in set(before["tparts"]) | set(after["tparts"]) | set(before["terrs"]) | set(after["terrs"]) | set(k[0] for k in before["t2b"]):
        if t in topics:
            if topic_view(after, t) != (None, None, []):
                bad.append(("C08_reset", "topic still cached after reset_topic_metadata", t, topic_view(after, t)))
        elif topic_view(before, t) != topic_view(after, t):
            bad.append(("C08_reset", "reset changed another topic", t))
    want = {k: v for k, v in before["g2c"].items() if k not in groups}
    if after["g2c"] != want:
        bad.append(("C08_reset", "coordinator cache after the reset", after["g2c"], want))


def loads_of(ob):
    if "load" in ob:
        return [ob["load"]] + list(ob.get("extra_loads") or [])
    if "pump" in ob:
        return list(ob["pump"]["loads"])
    return []


def mon_fallback(ob, tr, bad):
    """C07_fallback_order on every broker-agnostic request of the op"""
    for ld in loads_of(ob):
        if ld.get("closed_at_start"):
            continue
        shuf = list(ld["shuf"])
        if sorted(shuf) != sorted(tr.known):
            bad.append(("C07_fallback_order", "the brokers considered are not the known brokers", sorted(shuf), sorted(tr.known)))
        conn = ld.get("conn") or {}
        want = [n for n in shuf if conn.get(n)] + [n for n in shuf if not conn.get(n)]
        ktries = [x for x in ld["tries"] if x[0] == 0]
        btries = [x for x in ld["tries"] if x[0] == 1]
        if [x[1] for x in ktries] != want[:len(ktries)]:
            bad.append(("C07_fallback_order", "known brokers not tried connected-first in shuffle order", [x[1] for x in ktries], want))
        if ld["tries"] != ktries + btries:
            bad.append(("C07_fallback_order", "a bootstrap host was tried before a known broker", ld["tries"]))
        closed = any(x[4] in (2, 13, 14) for x in ld["tries"])
        if btries and len(ktries) != len(shuf) and not closed:
            bad.append(("C07_fallback_order", "bootstrap although a known broker was not tried", ld["tries"], shuf))
        bshuf = [tuple(x) for x in ld["bshuf"]]
        if btries:
            if sorted(bshuf) != sorted(tr.boot):
                bad.append(("C07_fallback_order", "bootstrap hosts considered differ from the configured ones", bshuf, tr.boot))
            if [(x[2], x[3]) for x in btries] != bshuf[:len(btries)]:
                bad.append(("C07_fallback_order", "bootstrap hosts not tried in shuffle order", btries, bshuf))
        ok_codes = (1, 11)
        for x in ld["tries"][:-1]:
            if x[4] in ok_codes:
                bad.append(("C07_fallback_order", "tries continued after an answer", ld["tries"]))
        answered = bool(ld["tries"]) and ld["tries"][-1][4] in ok_codes
        if not answered and not closed:
            # the caller sees an error: every known broker and every bootstrap host must have been tried
            if len(ktries) != len(shuf) or sorted((x[2], x[3]) for x in btries) != sorted(tr.boot):
                bad.append(("C07_fallback_order", "gave up before every broker and bootstrap host was tried", ld["tries"], shuf, tr.boot))
        if ob.get("code") == 3 and answered:
            bad.append(("C07_fallback_order", "KafkaUnavailable although a host answered", ld["tries"]))
        track_load(ld, tr)


def track_load(ld, tr):
    if ld.get("resp") is None:
        return
    if ld.get("kind") == 0:
        tr.merged(ld["resp"])
    elif ld.get("kind") == 1 and ld["resp"][0] == 0:
        tr.known.add(ld["resp"][1])
        tr.addr_of[ld["resp"][1]] = (ld["resp"][2], ld["resp"][3])


def track(ob, tr):
    """update the tracker with what this op told the client"""
    op = ob["op"]
    if op["op"] == "hosts":
        tr.boot = sorted(set(tuple(h) for h in op["hosts"]))


def monitors(hist, obs, which):
    """run the monitors of property `which` ("C07" / "C08") over the observations of one history;
    -> list of (theorem, what, details...) ; empty = fine"""
    bad = []
    tr = Tracker([tuple(h) for h in hist["hosts"]])
    for i, ob in enumerate(obs):
        n0 = len(bad)
        ob["before"]["closed"] = ob["before"].get("closed", False)
        kind = ob["op"]["op"]
        if which == "C08":
            if kind == "meta":
                mon_merge(ob, bad)
            if kind == "send":
                mon_invalidate(ob, bad)
                mon_reresolve(ob, bad)
                mon_connect_addr(ob, bad)
            if kind in ("coord", "sendcoord"):
                mon_coord(ob, bad)
            if kind in ("reset_all", "reset_topics", "reset_groups"):
                mon_reset(ob, bad)
            mon_told(ob, tr, bad)
            for ld in loads_of(ob):
                track_load(ld, tr)
        else:
            mon_told(ob, tr, bad)
            if kind in ("send", "sendcoord"):
                mon_routing(ob, bad)
            if kind == "send":
                mon_reresolve(ob, bad)
            mon_fallback(ob, tr, bad)
        mon_keyerror(ob, bad)
        if ob.get("leaks"):
            bad.append(("C08_full_refresh_closes", "connection left open although its broker client was dropped / the client closed / the bootstrap request ended",
                        ob["leaks"][:4]))
        track(ob, tr)
        for j in range(n0, len(bad)):
            bad[j] = (i,) + tuple(bad[j])
    if which == "C08" and "failover_from" in hist:
        bad += mon_recovery(hist, obs)
    return bad


def stale_topics_at(ob):
    """C08_recovery_within_budget's measure on the implementation: the distinct topics among the payloads that have a
    cached leader differing from the true one (the cluster's leader table of this attempt) when the retries start"""
    op = ob["op"]
    leaders = (op.get("plan") or {}).get("leaders") or {}
    topics = set(k[0] for k in op["payloads"])
    return sorted(set(k[0] for k, v in ob["before"]["t2b"].items()
                      if k[0] in topics and v is not None and leaders.get("%d:%d" % k) != v[0]))


def mon_recovery(hist, obs):
    """C08_recovery_within_budget end to end on the real client: after the last fault, against the honest cluster, the
    attempts that fail with a broker error number at most the distinct stale topics among the payloads (at most one if
    errors are delivered instead of raised; one for a stale coordinator); a dead broker costs at most one more attempt
    (its failed send empties the cache)"""
    idx = [i for i, ob in enumerate(obs) if ob["op"].get("retry") is not None]
    if not idx:
        return []
    fails, send_failures = 0, 0
    for i in idx:
        if attempt_ok(obs[i]):
            break
        fails += 1
        if obs[i]["result"]["kind"] == "failed":
            send_failures += 1
    else:
        return [(idx[-1], "C08_recovery_within_budget", "no attempt succeeded after the last fault",
                 [obs[i]["result"] for i in idx])]
    first = obs[idx[0]]
    op = first["op"]
    if op.get("group") is not None:
        bound = 1
    else:
        stale = stale_topics_at(first)
        bound = len(stale) if op["fail"] else min(1, len(stale))
    if fails - send_failures > bound or send_failures > 1 or fails > hist.get("failover_bound", 1) + 1:
        return [(idx[0], "C08_recovery_within_budget", "more failed attempts after the last fault than stale topics",
                 {"failed_attempts": fails, "of_which_failed_sends": send_failures, "stale_topic_bound": bound},
                 [obs[i]["result"] for i in idx])]
    return []


def failed_attempts(hist, obs):
    idx = [i for i, ob in enumerate(obs) if ob["op"].get("retry") is not None]
    n = 0
    for i in idx:
        if attempt_ok(obs[i]):
            return n
        n += 1
    return n


def attempt_ok(ob):
    res = ob["result"]
    return res["kind"] == "ok" and len(res["responses"]) == len(ob["op"]["payloads"]) and all(r[2] == 0 for r in res["responses"])


# ------------------------------------------------------------------ shrinking
def shrink(hist, failing, budget=60):
    """drop ops while `failing(hist)` stays true"""
    hist = copy.deepcopy(hist)
    changed = True
    while changed and budget > 0:
        changed = False
        for i in range(len(hist["ops"]) - 1, -1, -1):
            cand = copy.deepcopy(hist)
            del cand["ops"][i]
            budget -= 1
            try:
                if failing(cand):
                    hist, changed = cand, True
                    break
            except Exception:
                pass
            if budget <= 0:
                break
    return hist


def describe(case):
    return {"kind": case[0], "length": len(case), "line": case[:48]}


# ------------------------------------------------------------------ check machinery shared by C07.py / C08.py
def stats(ck, hist, obs):
    for ob in obs:
        op = ob["op"]
        ck.hist("op_" + op["op"])
        if op["op"] == "meta":
            ck.hist("meta_result_%d" % ob["code"])
            if ob["code"] == 1 and op["topics"]:
                ck.hist("meta_partial_merged")
            if ob["code"] == 1 and not op["topics"]:
                ck.hist("meta_full_merged")
            if ob["gone"]:
                ck.hist("meta_closed_clients", len(ob["gone"]))
        if op["op"] == "send":
            res = ob["result"]
            ck.hist("send_" + str(res["kind"]))
            ck.hist("send_nested_loads", len(ob["pump"]["loads"]))
            if res["kind"] == "ok" and any(r[2] in TOPIC_ERRS for r in res["responses"]):
                ck.hist("send_delivered_notleader_or_unknown")
            if res["kind"] == "error" and res["code"][0] == 2 and res["code"][1] in TOPIC_ERRS:
                ck.hist("send_raised_notleader_or_unknown")
            if res["kind"] == "error" and res["code"][0] == 2 and res["code"][1] in GROUP_ERRS:
                ck.hist("send_raised_coordinator_error")
        if op["op"] == "reset_all" and ob["before"]["g2c"]:
            ck.hist("reset_all_with_coordinator_cached")
        if op["op"] == "reset_groups" and set(op["groups"]) & set(ob["before"]["g2c"]):
            ck.hist("reset_group_that_was_cached")
        if op["op"] == "coord":
            ck.hist("coord_lookup_ok" if ob["ok"] == 1 else "coord_lookup_failed")
        if op["op"] == "send" and not op.get("expect", True) and any(q["code"] != 1 for q in ob["pump"]["reqs"]):
            ck.hist("acks0_send_failed")
        if op["op"] == "send" and op.get("api") == "fetch":
            ck.hist("send_fetch")
        if op.get("group_form") == "bytes":
            ck.hist("group_name_bytes")
        if ob.get("reaped"):
            ck.hist("connection_at_dead_address_reset", len(ob["reaped"]))
        if op["op"] == "send" and ob["pump"]["reqs"]:
            reqs = ob["pump"]["reqs"]
            ck.hist("fanout_%d_brokers" % min(len(reqs), 5))
            nf = sum(1 for q in reqs if q["code"] != 1)
            if nf:
                ck.hist("fanout_some_failed" if nf < len(reqs) else "fanout_all_failed")
            if any(q["code"] == 2 for q in reqs):
                ck.hist("fanout_request_never_written")
            if len(set(map(tuple, op["payloads"]))) != len(op["payloads"]):
                ck.hist("send_duplicate_keys")
            if op.get("group") is not None:
                ck.hist("send_via_coordinator")
        for ld in loads_of(ob):
            kt = [x for x in ld["tries"] if x[0] == 0]
            bt = [x for x in ld["tries"] if x[0] == 1]
            ck.hist("agnostic_requests")
            if any((ld.get("conn") or {}).values()) and not all((ld.get("conn") or {}).get(n) for n in ld["shuf"]):
                ck.hist("agnostic_mixed_connected_unconnected")
            if kt and bt:
                ck.hist("agnostic_known_then_bootstrap")
            if ld["tries"] and ld["tries"][-1][4] not in (1, 11):
                ck.hist("agnostic_all_tries_failed")
            if len(ld["tries"]) >= 4:
                ck.hist("agnostic_4plus_tries")


def nontrivial_history(obs):
    merged = sum(1 for ob in obs if ob["op"]["op"] == "meta" and ob["code"] == 1)
    nested = sum(len(ob["pump"]["loads"]) for ob in obs if "pump" in ob)
    sends = sum(1 for ob in obs if ob["op"]["op"] == "send" and ob["result"]["kind"] in ("ok", "failed"))
    return (merged + nested >= 1) and sends >= 1


def run_batch(ck, label, hists, monitor, theorems):
    cases, impl, metas, flags = [], [], [], {}
    for h in hists:
        case, trace, obs, sim = run(h)
        bad = monitors(h, obs, monitor)
        stats(ck, h, obs)
        if "failover_from" in h:
            ck.hist("failover_failed_attempts_%d" % failed_attempts(h, obs))
            ridx = [i for i, ob in enumerate(obs) if ob["op"].get("retry") is not None]
            if ridx and obs[ridx[0]]["op"].get("group") is None:
                ck.hist("failover_stale_topics_at_first_retry_%d" % len(stale_topics_at(obs[ridx[0]])))
        cases.append(case)
        impl.append(trace)
        metas.append((h, bad, list(sim.monitor_notes)))
        flags[id(case)] = nontrivial_history(obs)
        if bad:
            report_monitor(ck, h, bad, monitor)
        elif sim.monitor_notes:
            ck.violation({"kind": "the client did something the simulated network has no rule for",
                          "notes": sim.monitor_notes[:5], "history": h, "replay_op": "history", "monitor": monitor})
    diffs, mo = ck.correspond("clientrun", "Model.ClientRun", cases, impl, label, nontrivial=lambda c, o: flags[id(c)], describe=describe)
    for i in diffs:
        h, bad, notes = metas[i]
        if bad or notes:
            continue                       # already reported with a concrete failing history
        # correspondence broken, monitors silent on this history: look for a failing input around it
        found = search_around(ck, h, monitor)
        if not found:
            ck.violation({"kind": "correspondence broken", "correspondence": "corr:clientrun:" + label,
                          "theorems_no_longer_tied": theorems, "first_difference": CL.first_diff(impl[i], mo[i]),
                          "history": h, "replay_op": "history", "monitor": monitor}, no_input=True)
    return len(diffs)


def report_monitor(ck, h, bad, monitor):
    def failing(hh):
        _c, _t, obs, _s = run(hh)
        return any(b[1] == bad[0][1] for b in monitors(hh, obs, monitor))
    small = shrink(h, failing) if getattr(ck, "nviol", 0) < 5 else h
    _c, trace, obs, _s = run(small)
    ck.violation({"kind": "monitor " + bad[0][1], "verdicts": monitors(small, obs, monitor)[:4], "history": small,
                  "impl_trace": CL.split_trace(trace)[:40], "replay_op": "history", "monitor": monitor})


def search_around(ck, h, monitor, budget=40):
    """mutate the differing history (other seeds = other shuffles, honest plans, extra retries) and run the monitors"""
    rnd = random.Random(ck.seed + 17)
    for k in range(budget):
        hh = json.loads(json.dumps(h))
        hh["seed"] = rnd.randint(0, 10 ** 6)
        if k % 2:
            for op in hh["ops"]:
                pl = op.get("plan")
                if pl:
                    for key in ("resp_mode", "errs", "bad", "blackhole", "flaky", "boot", "boot_default", "close_try"):
                        if rnd.random() < 0.5:
                            pl.pop(key, None)
        if k % 3 == 2 and hh["ops"]:
            hh["ops"] = hh["ops"] + [json.loads(json.dumps(op)) for op in hh["ops"] if op["op"] == "send"][-2:]
        try:
            _c, _t, obs, _s = run(hh)
            bad = monitors(hh, obs, monitor)
        except Exception:
            continue
        if bad:
            report_monitor(ck, hh, bad, monitor)
            return True
    return False




def replay_history(rp, pid):
    import vlib
    h = rp.get("history")
    if h is None:
        print(json.dumps(rp, indent=1)[:4000])
        return 1
    monitor = rp.get("monitor", pid)
    case, trace, obs, sim = run(h)
    for i, ob in enumerate(obs):
        print(i, json.dumps({k: v for k, v in ob["op"].items() if k != "plan"}), "->",
              json.dumps(ob.get("result", ob.get("code", ob.get("ok", ""))), default=repr)[:300])
    bad = monitors(h, obs, monitor)
    print("monitor verdicts:", json.dumps(bad, default=repr)[:3000] if bad else "none")
    rc = 1 if bad or sim.monitor_notes else 0
    try:
        ck = vlib.Check(monitor, "quick", 0)
        mo = ck.model("clientrun", [case])[0]
        d = CL.first_diff(trace, mo)
        print("model comparison:", "traces agree" if d is None else json.dumps(d))
        if d is not None:
            rc = 1
    except Exception as e:   # the runner may not be built in a bare replay
        print("model comparison skipped:", repr(e)[:200])
    return rc
