#!/venv/bin/python
"""usage: run_mut.py <name>   -- applies mutation <name> to a scratch copy of /repo/afkak, runs the unit tests of the touched
modules and ./check C11 quick / ./check C20 quick against it, removes the copy."""
import os, re, shutil, subprocess, sys, tempfile

MUT = {
 # ---- C11
 "c11_min_only": ("client.py", "            timeout = max(self.timeout, min_timeout)\n\n        # Make the request", "            timeout = min_timeout\n\n        # Make the request"),
 "c11_no_timer_cancel": ("client.py", "            if dc.active():\n                dc.cancel()\n", "            pass\n"),
 "c11_no_disconnect": ("client.py", "            if self._disconnect_on_timeout:\n                log.info(\"_mrtb: Disconnecting", "            if False and self._disconnect_on_timeout:\n                log.info(\"_mrtb: Disconnecting"),
 "c11_keep_cancelled_error": ("client.py", "            if failure is not None:\n                return failure\n            return result", "            return result"),
 "c11_ignore_min_timeout": ("client.py", "            timeout = max(self.timeout, min_timeout)\n\n        # Make the request", "            timeout = self.timeout\n\n        # Make the request"),
 "c11_boot_no_timeout": ("client.py", "protocol.request(request).addTimeout(self.timeout, self.reactor)", "protocol.request(request)"),
 "c11_timer_off_by_factor": ("client.py", "dc = self.reactor.callLater(timeout, _mrtb_timeout)", "dc = self.reactor.callLater(timeout * 1.0000001, _mrtb_timeout)"),
 "c11_tombstone_dropped": ("brokerclient.py", "        if tReq.sent is not None:\n            tReq.cancelled = datetime.utcfromtimestamp(self._reactor.seconds())\n        else:\n            del self.requests[correlationId]", "        del self.requests[correlationId]"),
 "c11_disconnect_always": ("client.py", "            if self._disconnect_on_timeout:\n                log.info(\"_mrtb: Disconnecting", "            if True:\n                log.info(\"_mrtb: Disconnecting"),
 "c11_boot_timeout_doubled": ("client.py", "protocol.request(request).addTimeout(self.timeout, self.reactor)", "protocol.request(request).addTimeout(self.timeout * 2, self.reactor)"),
 "c11_timeout_div_1024": ("client.py", "self.timeout = float(timeout) / 1000.0  # msecs to secs", "self.timeout = float(timeout) / 1024.0  # msecs to secs"),
 "c11_sum_instead_of_max": ("client.py", "            timeout = max(self.timeout, min_timeout)\n\n        # Make the request", "            timeout = self.timeout + min_timeout\n\n        # Make the request"),
 "c11_dot_only_when_connected_first": ("brokerclient.py", "        if self.proto:\n            log.debug(\"%r Disconnecting from %r\", self, self.proto.transport.getPeer())\n            self.proto.transport.loseConnection()", "        if self.proto and not self.requests:\n            log.debug(\"%r Disconnecting from %r\", self, self.proto.transport.getPeer())\n            self.proto.transport.loseConnection()"),
 "aud_g1_aware_bypasses_timer": ("client.py", "            d = self._make_request_to_broker(broker, requestId, request, expectResponse=expectResponse)\n            inFlight.append(d)", "            d = broker.makeRequest(requestId, request, expectResponse)\n            inFlight.append(d)"),
 "aud_g2_coordinator_drops_kwargs": ("client.py", "            broker, request_id, encoded_request, expectResponse=True, **kwargs\n", "            broker, request_id, encoded_request, expectResponse=True\n"),
 "aud_h1_reset_keeps_coordinator_cache": ("client.py", "        self.topic_errors.clear()\n        self._group_to_coordinator.clear()\n", "        self.topic_errors.clear()\n"),
 "aud_f3_backoff_not_cancelled": ("client.py", "yield self._cancel_on_close(task.deferLater(self.reactor, delay, lambda: None))", "yield task.deferLater(self.reactor, delay, lambda: None)"),
 "aud_h2_boot_conn_not_closed_at_close": ("client.py", "            finally:\n                protocol.transport.loseConnection()", "            finally:\n                if not self._closing:\n                    protocol.transport.loseConnection()"),
 "aud_g4_timer_delayed": ("client.py", "        dc = self.reactor.callLater(timeout, _mrtb_timeout)\n", "        dc = self.reactor.callLater(timeout, _mrtb_timeout)\n        dc.delay(1.0)\n"),
 # ---- C20
 "c20_no_boot_cancel": ("client.py", "        for d in list(self._bootstrap_ds):\n            d.cancel()\n", ""),
 "c20_no_reset": ("client.py", "        # clean up other outstanding operations\n        self.reset_all_metadata()\n", ""),
 "c20_get_bc_no_guard": ("client.py", "        if self._closing:\n            raise ClientError(\"Cannot get broker client for node_id={}: {} has been closed\".format(node_id, self))\n", ""),
 "c20_close_succeeds_at_once": ("client.py", "        return self.close_dlist or defer.succeed(None)", "        return defer.succeed(None)"),
 "c20_unaware_no_guard": ("client.py", "        if self._closing:\n            raise ClientError(\"Cannot send request {}: {} has been closed\".format(_ReprRequest(request), self))\n", ""),
 "c20_dlist_not_nested": ("client.py", "            dList = [self.close_dlist]\n", "            dList = []\n"),
 "c20_boot_loop_no_closing_check": ("client.py", "            if self._closing:\n                # close() was called while this operation was in progress\n                raise CancelledError(message=\"{} has been closed\".format(self))\n            ep = ", "            ep = "),
 "c20_bc_close_keeps_requests": ("brokerclient.py", "            if tReq.cancelled is None:\n                tReq.d.errback(reason)\n        return self._dDown", "            pass\n        return self._dDown"),
 # ---- round 2 (same correlation id issued again; close() from a user callback during the queue flush)
 "r2_dup_guard_ignores_tombstone": ("brokerclient.py", "        if correlationId in self.requests:\n", "        if correlationId in self.requests and self.requests[correlationId].cancelled is None:\n"),
 "r2_dup_guard_only_unsent": ("brokerclient.py", "        if correlationId in self.requests:\n", "        if correlationId in self.requests and self.requests[correlationId].sent is None:\n"),
 "r2_sendqueued_no_recheck": ("brokerclient.py", "            if tReq.sent is None and self.requests.get(tReq.correlationId) is tReq:\n", "            if tReq.sent is None:\n"),
 "h_dup_guard_get": ("brokerclient.py", "        if correlationId in self.requests:\n", "        if self.requests.get(correlationId) is not None:\n"),
 "h_sendqueued_continue": ("brokerclient.py", "            if tReq.sent is None and self.requests.get(tReq.correlationId) is tReq:\n                self._sendRequest(tReq)\n", "            if tReq.sent is not None or self.requests.get(tReq.correlationId) is not tReq:\n                continue\n            self._sendRequest(tReq)\n"),
 # ---- harmless rewrites
 "h_disconnect_before_cancel": ("client.py", "            d.cancel()\n\n            if self._disconnect_on_timeout:\n                log.info(\"_mrtb: Disconnecting %s due to timeout of %s\", broker, rr)\n                broker.disconnect()\n", "            if self._disconnect_on_timeout:\n                log.info(\"_mrtb: Disconnecting %s due to timeout of %s\", broker, rr)\n                broker.disconnect()\n            d.cancel()\n"),
 "h_single_timeout_expr": ("client.py", "        if min_timeout is None:\n            timeout = self.timeout\n        else:\n            timeout = max(self.timeout, min_timeout)\n\n        # Make the request", "        timeout = self.timeout if min_timeout is None else max(min_timeout, self.timeout)\n\n        # Make the request"),
 "h_reset_before_boot_cancel": ("client.py", "        # Abort bootstrap connection attempts and requests in progress\n        for d in list(self._bootstrap_ds):\n            d.cancel()\n        # clean up other outstanding operations\n        self.reset_all_metadata()\n", "        # clean up other outstanding operations\n        self.reset_all_metadata()\n        # Abort bootstrap connection attempts and requests in progress\n        for d in tuple(self._bootstrap_ds):\n            d.cancel()\n"),
 "h_dlist_comprehension": ("client.py", "        for brokerClient in clients:\n            log.debug(\"Calling close on: %r\", brokerClient)\n            d = brokerClient.close().addErrback(_log_close_failure, brokerClient)\n            dList.append(d)\n", "        dList += [bc.close().addErrback(_log_close_failure, bc) for bc in clients]\n"),
 "h_sorted_to_close": ("client.py", "to_close = [self.clients.pop(node_id) for node_id in set(self.clients) - set(brokers_by_id)]", "to_close = [self.clients.pop(node_id) for node_id in sorted(set(self.clients) - set(brokers_by_id))]"),
}

def main(name):
    f, a, b = MUT[name]
    d = tempfile.mkdtemp(prefix="mut_", dir="/tmp")
    try:
        shutil.copytree("/repo/afkak", os.path.join(d, "afkak"))
        p = os.path.join(d, "afkak", f)
        s = open(p).read()
        if s.count(a) != 1:
            print(name, "PATTERN COUNT", s.count(a)); return
        open(p, "w").write(s.replace(a, b))
        tests = "afkak/test/test_client.py afkak/test/test_brokerclient.py"
        r = subprocess.run("cd %s && timeout 600 /venv/bin/python -m pytest -q -p no:cacheprovider %s 2>&1 | grep -E 'passed|failed' | tail -1" % (d, tests), shell=True, capture_output=True, text=True)
        print(name, "| unit tests:", r.stdout.strip()[-70:])
        for pid in sys.argv[2:] or ["C11", "C20"]:
            r = subprocess.run("cd /verif && VERIF_REPO=%s ./check %s quick 2>/dev/null | grep -c VIOLATION; VERIF_REPO=%s ./check %s quick 2>/dev/null | grep VIOLATION | head -1" % (d, pid, d, pid), shell=True, capture_output=True, text=True)
            out = r.stdout.strip().split("\n")
            print("   ", pid, "violations:", out[0], "|", out[1][-60:] if len(out) > 1 else "")
            if out[0] != "0":
                import glob, json
                for rp in sorted(glob.glob("/verif/replays/%s-0-*.json" % pid))[:1]:
                    j = json.load(open(rp))
                    print("       ", j.get("kind"), j.get("theorem"), (j.get("what") or [""])[0][:110] if isinstance(j.get("what"), list) else str(j.get("what"))[:110])
    finally:
        shutil.rmtree(d, ignore_errors=True)

if __name__ == "__main__":
    main(sys.argv[1])
