# C13 - consumer stop / shutdown leave nothing running and report once.
#
# The REAL afkak.consumer.Consumer (props/consumer_lib.py) and the extracted model coq/Model/Consumer.v run the same
# seeded event sequences; canonical traces must be equal.  The monitors restate the theorems of coq/Props/C13.v over the
# implementation's own trace plus what the harness itself can see after every step: reactor delayed calls, client
# Deferreds not yet fired or cancelled, processor Deferreds not yet fired (Driver.observe) - never a private attribute.
import random

import vlib
from props import consumer_lib as L

MODEL = "consumer"
MODULE = "Model.Consumer"
# every theorem of coq/Props/C13.v and C13all.v speaks about Model/Consumer.v: all lose their tie when the correspondence breaks
THEOREMS = ["C13_quiescent_after_stop", "C13_stopping_inert", "C13_stop_never_fails_start", "C13_stop_step_never_fails_start",
            "C13_quiescent_closed", "C13_start_once", "C13_start_once_nested", "C13_restartable", "C13_restart_delivers",
            "C13_stop_clears_shutdown_consistent", "C13_stop_never_raises", "C13_stop_preserves_shutdown_bookkeeping",
            "C13_shutdown_waits", "C13_stop_not_running", "C13_reachable_invariant", "C13_not_started_idle", "C13_not_started_idle_nested",
            "C13_not_started_commit_idle", "C13_not_started_commit_idle_step", "C13_not_started_commit_idle_nested",
            "C13_shutdown_bookkeeping", "C13_stop_clears_shutdown", "C13_stop_then_restart_delivers", "C13_every_stop_quiescent",
            "C13_shutdown_commits", "C13_shutdown_commits_step", "C13_fuel_monotone", "C13_fuel_monotone_nested",
            "C13_stop_fuel_enough", "C13_stop_step_fuel_enough", "C13_stopping_fuel_enough", "C13_commit_side_fuel_enough",
            "C13_message_loop_fuel_enough", "C13_step_fuel_enough", "C13_fuel_enough", "C13_reachable_invariant_all",
            "C13_every_stop_quiescent_all", "C13_shutdown_commits_all", "C13_not_started_idle_all", "C13_not_started_commit_idle_all",
            "C13_shutdown_bookkeeping_all", "C13_stop_then_restart_delivers_all"]


def idle(ob):
    return not ob["timers"] and not ob["req_pending"] and not ob["commit_pending"] and ob["procs_pending"] == 0


# ------------------------------------------------------------------ monitors over one observed run
def monitor(cfg, events, trace, obs):
    """obs: Driver.observe() after every step (None for a model trace: only the trace-level parts are checked).
    API calls made from inside the processor are recognised through the plan the harness itself queued (EV_PLAN)."""
    bad = []
    steps, ends = L.split_steps(trace)
    if len(steps) != len(events):
        return [("trace", len(steps), "trace has %d steps for %d events" % (len(steps), len(events)))]
    st = {"startd": None,          # None: no start Deferred; False: pending; True: fired
          "clean": False,          # a stop()/shutdown completed and since then neither start() nor a manual commit()
          "shut_pending": 0,       # shutdown Deferreds handed out and not yet fired
          "waiting": False,        # an accepted shutdown() is waiting for the processor result that was pending
          "fresh": False,          # started and nothing delivered yet since (restartable: it must deliver again)
          "fetch_off": None}       # offset of the last FetchRequest
    plan = []

    def stop_returned(i, pos, outs, value, who):
        later = [o for o in outs[pos + 1:] if o[0] in L.ACTIVITY]
        if later:
            bad.append(("C13_quiescent_after_stop", i, "%s returned and then %r was sent / scheduled / delivered in the same step" % (who, later[:3])))
        if obs is not None and not idle(obs[i]):
            bad.append(("C13_quiescent_after_stop", i, "%s returned but something is still running: %r" % (who, obs[i])))
        if st["startd"] is False:
            bad.append(("C13_start_once", i, "%s returned but the start Deferred has not fired" % who))
        if st["shut_pending"]:
            bad.append(("C13_shutdown_once", i, "%s returned while a shutdown Deferred is still pending" % who))
        st["startd"], st["clean"], st["waiting"] = None, True, False

    for i, (ev, outs) in enumerate(zip(events, steps)):
        t = ev[0]
        acts = [o for o in outs if o[0] in L.ACTIVITY]
        raised = [o[1] for o in outs if o[0] == L.OUT_RAISED]
        if t == L.EV_PLAN:
            plan.append((ev[1], ev[2]))
        accepted_start = t == L.EV_START and any(o == (L.OUT_RET, 0) for o in outs) and L.X_RESTART not in raised
        # ---- C13_quiescent_closed: nothing happens between a completed stop and the next start()
        if st["clean"] and not accepted_start and t != L.EV_COMMIT:
            if acts:
                bad.append(("C13_quiescent_closed", i, "activity %r after stop returned (event %s)" % (acts[:3], L.EV_NAMES[t])))
            if obs is not None and not idle(obs[i]):
                bad.append(("C13_quiescent_closed", i, "something is running after stop returned: %r" % (obs[i],)))
        if t == L.EV_COMMIT:
            st["clean"] = False
        if accepted_start:
            if st["startd"] is False:
                bad.append(("C13_start_once", i, "start() accepted while the previous start Deferred is still pending"))
            st["startd"], st["clean"] = False, False
            st["fresh"] = True
            # ---- C13_restartable: the (re)started consumer sends its first request in the same call
            if not any(o[0] in (L.OUT_FETCH, L.OUT_OFFREQ, L.OUT_OFFFETCH) for o in outs):
                bad.append(("C13_restartable", i, "start() returned without sending a request"))
        # ---- graceful shutdown waits for the processing in progress (top-level shutdown() with a processor result pending)
        if t == L.EV_SHUTDOWN and (L.OUT_RET, 0) in outs and \
                not any(o[0] == L.OUT_SHUTDOWN_D and o[1] == 0 and o[2] == L.X_RESTOP for o in outs):
            st["shut_pending"] += 1
            if obs is not None and i > 0 and obs[i - 1]["procs_pending"] > 0:
                st["waiting"] = True
        if st["waiting"] and t != L.EV_STOP:
            for o in outs:
                if o[0] == L.OUT_CANCEL_PROC or (o[0] == L.OUT_SHUTDOWN_D and not (o[1] == 0 and o[2] == L.X_RESTOP)) or \
                        (o[0] == L.OUT_START_D and o[1] == 1):
                    if not (t == L.EV_PROC_FIRE and outs[:1] != [(L.OUT_IGNORED,)]):
                        bad.append(("C13_shutdown_waits", i, "shutdown() did not wait for the processing in progress: %r during %s" % (o, L.EV_NAMES[t])))
        if t == L.EV_PROC_FIRE and outs[:1] != [(L.OUT_IGNORED,)]:
            st["waiting"] = False
        # ---- C13_restartable, second half: a (re)started consumer delivers again (flags of an interrupted shutdown not stuck)
        for o in outs:
            if o[0] == L.OUT_FETCH:
                st["fetch_off"] = o[1]
        if t in (L.EV_STOP, L.EV_SHUTDOWN) or any(o[0] in (L.OUT_RET, L.OUT_RAISED) for o in outs if t not in (L.EV_START, L.EV_COMMIT)):
            st["fresh"] = False
        if st["fresh"] and t == L.EV_FETCH_OK and outs[:1] != [(L.OUT_IGNORED,)] and st["fetch_off"] is not None and \
                ev[1] == sorted(ev[1]) and any(x >= st["fetch_off"] for x in ev[1]) and st["startd"] is False and not ev[2]:
            if not any(o[0] == L.OUT_CALLPROC for o in outs):
                bad.append(("C13_restartable", i, "the (re)started consumer received messages %r at fetch offset %d and did not call the processor" % (ev[1], st["fetch_off"])))
            st["fresh"] = False
        if any(o[0] == L.OUT_CALLPROC for o in outs):
            st["fresh"] = False
        # ---- walk the outputs in order
        inside = 0          # API call the processor is making right now (0: none)
        top_call = {L.EV_STOP: 1, L.EV_COMMIT: 2, L.EV_SHUTDOWN: 3}.get(t, 0)
        for pos, o in enumerate(outs):
            tag = o[0]
            if tag == L.OUT_CALLPROC:
                inside = (plan.pop(0) if plan else (0, 2))[0]
                if inside == 3:       # shutdown() from inside the processor: accepted unless it fails with RestopError below
                    pass
            elif tag == L.OUT_START_D:
                if st["startd"] is not False:
                    bad.append(("C13_start_once", i, "start Deferred outcome %r reported while none is pending" % (o,)))
                st["startd"] = True
            elif tag == L.OUT_SHUTDOWN_D and not (o[1] == 0 and o[2] == L.X_RESTOP):
                # a shutdown() made inside the processor fires (or is accepted) in the same step: count it when it fires
                if st["shut_pending"] == 0 and inside == 3:
                    st["shut_pending"] = 1
                st["shut_pending"] -= 1
                if st["shut_pending"] < 0:
                    bad.append(("C13_shutdown_once", i, "shutdown Deferred fired more often than shutdown() was accepted"))
                    st["shut_pending"] = 0
                # ---- C13_shutdown_commits: success with a group => last committed == last processed
                if o[1] == 1 and cfg.group and not (o[2] == L.NONE or o[3] == o[2]):
                    bad.append(("C13_shutdown_commits", i, "shutdown succeeded with last_processed %d but last_committed %d" % (o[2], o[3])))
                if o[1] == 1 and ends[i][0] != o[2] and not inside:
                    # (a shutdown() made by the processor completes before the processor returns: the block being
                    #  processed is recorded as processed afterwards, as for stop() inside the processor)
                    bad.append(("C13_shutdown_commits", i, "shutdown Deferred value %d is not last_processed_offset %d" % (o[2], ends[i][0])))
                # success or failure: the consumer has been stopped (an interruption by stop() is reported from inside that stop())
                interrupted = o[1] == 0 and o[2] == L.FK_CANCELLED
                if st["startd"] is False and not interrupted:
                    bad.append(("C13_start_once", i, "shutdown ended (%s) but the start Deferred has not fired" % ("ok" if o[1] else "failure %d" % o[2])))
                if obs is not None and not idle(obs[i]):
                    bad.append(("C13_quiescent_after_stop", i, "shutdown ended (%s) but something is still running: %r" % ("ok" if o[1] else "failure %d" % o[2], obs[i])))
                st["waiting"] = False
                if not interrupted:
                    st["clean"] = True
                    if st["startd"] is True:
                        st["startd"] = None
            elif tag in (L.OUT_RET, L.OUT_RAISED):
                who = inside if inside else top_call
                if inside:
                    inside_now, inside = inside, 0
                else:
                    inside_now = 0
                if who == 3 and inside_now == 3 and tag == L.OUT_RET:
                    # shutdown() inside the processor returned a pending Deferred
                    if not any(x[0] == L.OUT_SHUTDOWN_D for x in outs[:pos]):
                        st["shut_pending"] += 1
                if who == 1:
                    name = "stop() inside the processor" if inside_now else "stop()"
                    if tag == L.OUT_RET:
                        if not inside_now:
                            if acts:
                                bad.append(("C13_quiescent_after_stop", i, "stop() sent / scheduled / delivered %r" % (acts[:3],)))
                            if o[1] != ends[i][0]:
                                bad.append(("C13_quiescent_after_stop", i, "stop() returned %d, last_processed_offset is %d" % (o[1], ends[i][0])))
                        for x in outs[:pos]:
                            if x[0] == L.OUT_START_D and x[1] == 1 and x[2] != o[1] and not inside_now:
                                bad.append(("C13_quiescent_after_stop", i, "start Deferred fired with %d, stop() returned %d" % (x[2], o[1])))
                            if x[0] == L.OUT_START_D and x[1] == 0 and not inside_now:
                                bad.append(("C13_start_once", i, "stop() made the start Deferred FAIL (failure kind %d) instead of firing it with last_processed_offset %d" % (x[2], o[1])))
                        stop_returned(i, pos, outs, o[1], name)
                    elif o[1] != L.X_RESTOP:
                        bad.append(("C13_stop_returns", i, "%s raised %d on a running consumer" % (name, o[1])))
                    elif st["startd"] is False:
                        bad.append(("C13_stop_not_running", i, "%s raised RestopError although the consumer is running" % name))
    return bad


# ------------------------------------------------------------------ directed families: stop/shutdown from every state
def preambles(rnd):
    """(name, cfg kwargs, events) reaching each state named in the property's quantifier"""
    return [
        ("resolving-offsets", dict(group=0), [(L.EV_START, L.OFFSET_EARLIEST)]),
        ("resolving-committed", dict(group=1), [(L.EV_START, L.OFFSET_COMMITTED)]),
        ("fetching", dict(group=rnd.choice([0, 1])), [(L.EV_START, 0)]),
        ("processing", dict(group=1, acn=rnd.choice([0, 2])), [(L.EV_START, 0), (L.EV_FETCH_OK, [0, 1, 2], 0)]),
        ("processing+refetch-outstanding", dict(group=1), [(L.EV_START, 0), (L.EV_FETCH_OK, [0, 1], 0), (L.EV_FIRE_RETRY,)]),
        ("reply-parked", dict(group=1, acn=1), [(L.EV_START, 0), (L.EV_FETCH_OK, [0, 1], 0), (L.EV_FIRE_RETRY,), (L.EV_FETCH_OK, [2, 3], 0)]),
        ("waiting-to-retry", dict(group=0, maxatt=rnd.choice([0, 3])), [(L.EV_START, 0), (L.EV_REQ_FAIL, L.FK_KAFKA)]),
        ("zero-delay-refetch-armed", dict(group=0), [(L.EV_START, 0), (L.EV_PLAN, 0, 0), (L.EV_FETCH_OK, [0], 0)]),
        ("manual-commit-in-flight", dict(group=1, acn=0), [(L.EV_START, 0), (L.EV_PLAN, 0, 0), (L.EV_FETCH_OK, [0, 1], 0), (L.EV_COMMIT,)]),
        ("manual-commit-backoff", dict(group=1, acn=0), [(L.EV_START, 0), (L.EV_PLAN, 0, 0), (L.EV_FETCH_OK, [0, 1], 0), (L.EV_COMMIT,), (L.EV_COMMIT_FAIL, L.FK_KAFKA)]),
        ("auto-commit-in-flight", dict(group=1, acn=1), [(L.EV_START, 0), (L.EV_PLAN, 0, 0), (L.EV_FETCH_OK, [0, 1], 0)]),
        ("auto-commit-backoff", dict(group=1, acn=1), [(L.EV_START, 0), (L.EV_PLAN, 0, 0), (L.EV_FETCH_OK, [0, 1], 0), (L.EV_COMMIT_FAIL, L.FK_KAFKA)]),
        ("timer-commit-in-flight", dict(group=1, acn=0, acs=1), [(L.EV_START, 0), (L.EV_PLAN, 0, 0), (L.EV_FETCH_OK, [0], 0), (L.EV_TICK,)]),
        ("commit-waiters", dict(group=1, acn=0, acs=1), [(L.EV_START, 0), (L.EV_PLAN, 0, 0), (L.EV_PLAN, 0, 0), (L.EV_FETCH_OK, [0], 0), (L.EV_COMMIT,),
                                                     (L.EV_FIRE_RETRY,), (L.EV_FETCH_OK, [1], 0), (L.EV_COMMIT,), (L.EV_TICK,)]),
        ("inside-processor-stop", dict(group=1, acn=1), [(L.EV_START, 0), (L.EV_PLAN, 1, rnd.choice([0, 1, 2])), (L.EV_FETCH_OK, [0, 1], 0)]),
        ("inside-processor-shutdown", dict(group=1, acn=rnd.choice([0, 1])), [(L.EV_START, 0), (L.EV_PLAN, 0, 0), (L.EV_FETCH_OK, [0], 0), (L.EV_FIRE_RETRY,),
                                                                        (L.EV_PLAN, 3, rnd.choice([0, 1, 2])), (L.EV_FETCH_OK, [1, 2], 0)]),
        ("inside-processor-commit", dict(group=1, acn=0), [(L.EV_START, 0), (L.EV_PLAN, 0, 0), (L.EV_FETCH_OK, [0], 0), (L.EV_FIRE_RETRY,),
                                                        (L.EV_PLAN, 2, rnd.choice([0, 2])), (L.EV_FETCH_OK, [1, 2], 0)]),
        ("start-deferred-already-failed", dict(group=1), [(L.EV_START, 0), (L.EV_PLAN, 0, 1), (L.EV_FETCH_OK, [0], 0)]),
        ("shutdown-waiting-for-processor", dict(group=1), [(L.EV_START, 0), (L.EV_FETCH_OK, [0, 1], 0), (L.EV_SHUTDOWN,)]),
        ("shutdown-commit-in-flight", dict(group=1, acn=0), [(L.EV_START, 0), (L.EV_PLAN, 0, 0), (L.EV_FETCH_OK, [0], 0), (L.EV_SHUTDOWN,)]),
        ("shutdown-behind-running-commit", dict(group=1, acn=0), [(L.EV_START, 0), (L.EV_PLAN, 0, 0), (L.EV_PLAN, 0, 0), (L.EV_FETCH_OK, [0], 0), (L.EV_COMMIT,),
                                                               (L.EV_FIRE_RETRY,), (L.EV_FETCH_OK, [1], 0), (L.EV_SHUTDOWN,)]),
    ]


def fam_stop_everywhere(rnd):
    name, kw, pre = rnd.choice(preambles(rnd))
    cfg = L.gen_cfg(rnd, **kw)
    if not cfg.group:
        cfg.acn, cfg.acs = 0, 0
    L.quiet()
    drv = L.Driver(cfg)
    evs = []
    for ev in pre:
        evs.append(ev)
        drv.step(ev)
    # the call under test, then every ordering of what was outstanding (random enabled events), then maybe a restart
    evs2 = [rnd.choice([(L.EV_STOP,), (L.EV_STOP,), (L.EV_SHUTDOWN,)])]
    for ev in evs2:
        evs.append(ev)
        drv.step(ev)
    w = {L.EV_START: 1, L.EV_STOP: 2, L.EV_SHUTDOWN: 1, L.EV_COMMIT: 1, L.EV_PLAN: 1}
    for _ in range(rnd.randint(2, 10)):
        ev = L.gen_event(rnd, drv, w)
        evs.append(ev)
        drv.step(ev)
    return name, cfg, evs


C13_WEIGHTS = {L.EV_STOP: 6, L.EV_SHUTDOWN: 4, L.EV_START: 4, L.EV_COMMIT: 4, L.EV_TICK: 5, L.EV_COMMIT_FAIL: 5,
               L.EV_PLAN: 6}

CORPUS = [
    # F-C13-1 (fixed 6fb22b2): stop during commit back-off, start, stop
    ("F-C13-1", dict(group=1, acn=1), [(L.EV_START, 0), (L.EV_PLAN, 0, 0), (L.EV_FETCH_OK, [0], 0), (L.EV_COMMIT_FAIL, 1), (L.EV_STOP,),
                                      (L.EV_START, 1), (L.EV_STOP,)]),
    # F-C13-2 / F-C13-5 (fixed 7ab3409): shutdown with the processor pending, then stop
    ("F-C13-2", dict(group=1), [(L.EV_START, 0), (L.EV_FETCH_OK, [0, 1], 0), (L.EV_SHUTDOWN,), (L.EV_STOP,), (L.EV_START, 0),
                                 (L.EV_PLAN, 0, 0), (L.EV_FETCH_OK, [0], 0)]),
    ("F-C13-5", dict(group=1, acn=0), [(L.EV_START, 0), (L.EV_PLAN, 0, 0), (L.EV_PLAN, 0, 0), (L.EV_FETCH_OK, [0], 0), (L.EV_COMMIT,),
                                      (L.EV_FIRE_RETRY,), (L.EV_FETCH_OK, [1], 0), (L.EV_SHUTDOWN,), (L.EV_STOP,), (L.EV_START, 2),
                                      (L.EV_PLAN, 0, 0), (L.EV_FETCH_OK, [2], 0)]),
    # F-C13-3 (fixed f9e39f5): reply parked behind processing, stop, start
    ("F-C13-3", dict(group=0), [(L.EV_START, 0), (L.EV_FETCH_OK, [0], 0), (L.EV_FIRE_RETRY,), (L.EV_FETCH_OK, [1], 0), (L.EV_STOP,),
                                 (L.EV_START, 1), (L.EV_PLAN, 0, 0), (L.EV_FETCH_OK, [1], 0)]),
    # F-C13-4 (fixed 3fdfd26): stop during an automatic commit
    ("F-C13-4", dict(group=1, acn=1), [(L.EV_START, 0), (L.EV_PLAN, 0, 0), (L.EV_FETCH_OK, [0], 0), (L.EV_STOP,)]),
    # F-C03-2 (fixed 6a022ff): stop with an asynchronous processor result pending and more blocks queued
    ("F-C03-2", dict(group=1, acn=1), [(L.EV_START, 0), (L.EV_FETCH_OK, [0, 1, 2], 0), (L.EV_STOP,)]),
    # F-C13-6 (fixed 7687afc): shutdown() from inside the processor while a block is being processed
    ("F-C13-6", dict(group=1, acn=0), [(L.EV_START, 0), (L.EV_PLAN, 0, 0), (L.EV_FETCH_OK, [0, 1], 0), (L.EV_FIRE_RETRY,), (L.EV_PLAN, 3, 0),
                                      (L.EV_FETCH_OK, [2, 3], 0), (L.EV_COMMIT_OK,), (L.EV_COMMIT_OK,)]),
    ("shutdown-in-processor-pending", dict(group=1, acn=1), [(L.EV_START, 0), (L.EV_PLAN, 3, 2), (L.EV_FETCH_OK, [0, 1], 0), (L.EV_PROC_FIRE, 1),
                                                            (L.EV_COMMIT_OK,), (L.EV_COMMIT_OK,)]),
    ("shutdown-in-processor-no-group", dict(group=0), [(L.EV_START, 0), (L.EV_PLAN, 3, 0), (L.EV_FETCH_OK, [0, 1], 0), (L.EV_START, 2)]),
    # graceful shutdown: waits for the processor, commits, stops
    ("shutdown-ok", dict(group=1, acn=0), [(L.EV_START, 0), (L.EV_FETCH_OK, [0, 1], 0), (L.EV_SHUTDOWN,), (L.EV_PROC_FIRE, 1), (L.EV_COMMIT_OK,),
                                          (L.EV_START, 2)]),
    ("shutdown-commit-fails", dict(group=1, acn=0), [(L.EV_START, 0), (L.EV_FETCH_OK, [0, 1], 0), (L.EV_SHUTDOWN,), (L.EV_PROC_FIRE, 1),
                                                    (L.EV_COMMIT_FAIL, 1), (L.EV_FIRE_COMMIT_RETRY,), (L.EV_COMMIT_FAIL, 1)]),
]


# ------------------------------------------------------------------ re-entrant user callbacks on the start Deferred
# Implementation side only (the model does not contain user callbacks): the common pattern
#     consumer.start(off).addErrback(lambda f: consumer.stop())          (also commit() / shutdown())
# runs stop() synchronously inside whatever handler reports the failure.  Monitors: the hooked stop() returns, leaves
# nothing running at the end of the step, nothing is sent / scheduled / delivered after it inside the step, the start
# Deferred fires once.
class HookedDriver(L.Driver):
    def __init__(self, cfg, hook, **kw):
        self.hook = hook
        self.hook_log = []          # (step_no, hook, "ret"/"raised", value, trace length when the hook finished)
        L.Driver.__init__(self, cfg, **kw)

    def watch(self, d, tag, *ids):
        if tag == L.OUT_START_D and self.hook:
            def run_hook(f):
                try:
                    if self.hook == 1:
                        r = self.consumer.stop()
                    elif self.hook == 2:
                        r = self.consumer.commit()
                        r.addErrback(lambda _f: None)
                        r = 0
                    else:
                        r = self.consumer.shutdown()
                        r.addErrback(lambda _f: None)
                        r = 0
                    self.hook_log.append((self.step_no, self.hook, "ret", L.v(r) if (r is None or isinstance(r, int)) else 0, len(self.trace)))
                except Exception as e:
                    self.hook_log.append((self.step_no, self.hook, "raised", L.fk_of(e), len(self.trace)))
                return f
            d.addErrback(run_hook)
        L.Driver.watch(self, d, tag, *ids)


def run_hooked(cfg, events, hook):
    L.quiet()
    drv = HookedDriver(cfg, hook)
    obs, marks = [], []
    for ev in events:
        before = len(drv.trace)
        drv.step(ev)
        obs.append(drv.observe())
        marks.append((before, len(drv.trace)))
    return drv, obs, marks


def monitor_hooked(cfg, events, drv, obs, marks):
    bad = []
    nstartd = 0
    pending = False
    steps, _ = L.split_steps(drv.trace)
    for i, (ev, outs) in enumerate(zip(events, steps)):
        if ev[0] == L.EV_START and (L.OUT_RET, 0) in outs:
            pending = True
        for o in outs:
            if o[0] == L.OUT_START_D:
                if not pending:
                    bad.append(("C13_start_once", i, "start Deferred outcome %r reported while none is pending (re-entrant callback)" % (o,)))
                pending = False
    for (step, hook, how, val, tlen) in drv.hook_log:
        i = step - 1
        if hook == 1:
            if how == "raised" and val != L.X_RESTOP:
                bad.append(("C13_stop_returns", i, "stop() called from the start Deferred's errback raised %d" % val))
            if how == "ret":
                # what the step emitted after the hooked stop() returned
                tail = drv.trace[tlen:marks[i][1]]
                later, _ = L.split_steps(tail + [L.OUT_END, 0, 0]) if tail else ([[]], None)
                acts = [o for o in later[0] if o[0] in L.ACTIVITY]
                if acts:
                    bad.append(("C13_quiescent_after_stop", i, "after stop() (called from the start Deferred's errback) returned: %r" % (acts[:3],)))
                if not idle(obs[i]):
                    bad.append(("C13_quiescent_after_stop", i, "stop() called from the start Deferred's errback returned but something is still running: %r" % (obs[i],)))
        elif how == "raised":
            bad.append(("C13_hook", i, "%s called from the start Deferred's errback raised %d" % ({2: "commit()", 3: "shutdown()"}[hook], val)))
    # after a stop() that returned (hooked or not): nothing is sent / scheduled / delivered, nothing is left running and
    # last_committed_offset does not move until the next start() (or a commit() the application makes by hand)
    _, ends = L.split_steps(drv.trace)
    stopped_at = {step - 1 for (step, hook, how, val, tlen) in drv.hook_log if hook == 1 and how == "ret"}
    clean, lc0 = False, None
    for i, (ev, outs) in enumerate(zip(events, steps)):
        accepted_start = ev[0] == L.EV_START and (L.OUT_RET, 0) in outs
        if accepted_start or ev[0] == L.EV_COMMIT:
            clean = False
        if clean:
            acts = [o for o in outs if o[0] in L.ACTIVITY]
            if acts:
                bad.append(("C13_quiescent_closed", i, "activity %r after stop() returned (event %s)" % (acts[:3], L.EV_NAMES[ev[0]])))
            if not idle(obs[i]):
                bad.append(("C13_quiescent_closed", i, "something is running after stop() returned: %r" % (obs[i],)))
            if ends[i][1] != lc0:
                bad.append(("C13_quiescent_closed", i, "last_committed_offset moved from %d to %d after stop() returned" % (lc0, ends[i][1])))
        if i in stopped_at or (ev[0] == L.EV_STOP and any(o[0] == L.OUT_RET for o in outs)):
            clean, lc0 = True, ends[i][1]
    return bad


def describe(c):
    return {"cfg": dict(zip(L.Cfg.FIELDS, c[1:11])), "events_line": c[11:71]}


def fails_on_impl(cfg, events):
    drv, obs = L.run_observed(cfg, events)
    return bool(monitor(cfg, events, drv.trace, obs))


def report(ck, cfg, events, bad, trace, origin):
    ck.violation({"kind": "monitor failed on the implementation's trace", "theorem": bad[0][0], "step": bad[0][1],
                  "what": bad[0][2], "all": [list(b) for b in bad[:6]], "cfg": cfg.line(),
                  "events": [list(e) for e in events], "impl_trace": trace, "origin": origin, "replay_op": "case"})


def small_alphabet(drv):
    last = [a for (_, what, a) in drv.sent if what == "fetch"]
    base = last[-1][0] if last else 0
    al = [(L.EV_START, 0), (L.EV_STOP,), (L.EV_SHUTDOWN,), (L.EV_COMMIT,), (L.EV_REQ_FAIL, L.FK_KAFKA),
          (L.EV_FETCH_OK, [base, base + 1], 0), (L.EV_PLAN, 0, 0), (L.EV_PLAN, 1, 0), (L.EV_PLAN, 3, 0), (L.EV_PROC_FIRE, 1), (L.EV_PROC_FIRE, 0),
          (L.EV_COMMIT_OK,), (L.EV_COMMIT_FAIL, L.FK_KAFKA), (L.EV_FIRE_RETRY,), (L.EV_FIRE_COMMIT_RETRY,), (L.EV_TICK,)]
    return [e for e in al if drv.enabled(e)]


def run(ck):
    vlib.import_repo()
    ck.build([MODEL])
    ck.props()
    rnd = random.Random(ck.seed)
    thorough = ck.tier == "thorough"
    if thorough:
        ck.props("C13all")       # the run-level theorems without the fuel hypothesis (corollaries of C13_fuel_enough)
    scale = 10 if thorough else 1
    L.quiet()

    batches = []
    batches.append(("corpus (the seven repaired defects F-C13-1..6, F-C03-2; graceful shutdown incl. from inside the processor)", [(L.Cfg(**kw), evs) for _, kw, evs in CORPUS]))
    fam = []
    for _ in range(700 * scale):
        name, cfg, evs = fam_stop_everywhere(rnd)
        ck.hist("stop_from:" + name)
        fam.append((cfg, evs))
    batches.append(("stop()/shutdown() from each of 21 state classes, then any ordering of the outstanding replies", fam))
    gen = []
    for _ in range(700 * scale):
        cfg, evs, _ = L.gen_case(rnd, rnd.choice([15, 30, 45, 70 if thorough else 45]), weights=C13_WEIGHTS)
        gen.append((cfg, evs))
    batches.append(("state-aware random event sequences, stop/shutdown/commit-heavy weights", gen))
    # long fetches: many processor blocks in one reply (the model recurses once per block where the code loops; the fuel
    # field of the case line is derived from the input size, consumer_lib.fuel_for)
    longf = []
    for _ in range(12 * scale):
        k = rnd.choice([20, 35, 70, 120])
        cfg = L.gen_cfg(rnd, group=1, acn=rnd.choice([1, 1, 3]), acs=0)
        evs = [(L.EV_START, 0)] + [(L.EV_PLAN, 0, 0)] * rnd.choice([k, k // 2]) + [(L.EV_FETCH_OK, list(range(k)), 0)]
        evs += [rnd.choice([(L.EV_STOP,), (L.EV_SHUTDOWN,), (L.EV_COMMIT_OK,)]), (L.EV_COMMIT_OK,), (L.EV_STOP,)]
        longf.append((cfg, evs))
    batches.append(("long fetches: 20-120 processor blocks in one reply, then stop/shutdown", longf))
    if thorough:
        ex = []
        for cfg in (L.Cfg(group=1, acn=1, acs=1, maxatt=0), L.Cfg(group=1, acn=0, acs=0, maxatt=2), L.Cfg(group=0, maxatt=0)):
            for evs, drv in L.enumerate_cases(cfg, 5, preamble=[(L.EV_START, 0), (L.EV_PLAN, 0, 0), (L.EV_FETCH_OK, [0, 1], 0)],
                                               alphabet=small_alphabet, limit=9000):
                ex.append((cfg, evs))
        batches.append(("exhaustive depth-5 enumeration (15-event alphabet, enabled events only) after start+first block, 3 configurations", ex))

    # ---- implementation-side only: re-entrant callbacks on the start Deferred (no model counterpart)
    nh = 0
    hooked_bad = 0
    for _ in range(250 * scale):
        hook = rnd.choice([1, 1, 1, 2, 3])
        cfg, evs, _ = L.gen_case(rnd, rnd.choice([10, 20, 35]), weights={L.EV_REQ_FAIL: 10, L.EV_PLAN: 8, L.EV_COMMIT_FAIL: 8, L.EV_FIRE_RETRY: 8,
                                                                     L.EV_STOP: 1, L.EV_SHUTDOWN: 1, L.EV_START: 5})
        cfg.maxatt = rnd.choice([1, 2, 3]) if rnd.random() < 0.7 else cfg.maxatt
        drvh, obsh, marks = run_hooked(cfg, evs, hook)
        nh += len(drvh.hook_log)
        ck.hist("hooked_errback:%d" % hook, len(drvh.hook_log))
        bh = monitor_hooked(cfg, evs, drvh, obsh, marks)
        if bh:
            hooked_bad += 1
            if hooked_bad <= 2:
                small = L.shrink(cfg, evs, lambda c, e: bool(monitor_hooked(c, e, *run_hooked(c, e, hook))))
                d2, o2, m2 = run_hooked(cfg, small, hook)
                b2 = monitor_hooked(cfg, small, d2, o2, m2) or bh
                ck.violation({"kind": "monitor failed on the implementation's trace (re-entrant callback on the start Deferred)", "theorem": b2[0][0],
                              "step": b2[0][1], "what": b2[0][2], "hook": {1: "stop()", 2: "commit()", 3: "shutdown()"}[hook], "cfg": cfg.line(),
                              "events": [list(e) for e in small], "impl_trace": d2.trace, "replay_op": "hooked", "hook_code": hook})
    # directed: every state class of the quantifier, then an event that makes the start Deferred fail (the errback runs
    # stop()/commit()/shutdown() in the middle of whatever chain reported the failure), then the outstanding replies
    FAILERS = [[(L.EV_PROC_FIRE, 0)], [(L.EV_REQ_FAIL, L.FK_KAFKA)], [(L.EV_REQ_FAIL, L.FK_OOR)], [(L.EV_COMMIT_FAIL, L.FK_OTHER)],
               [(L.EV_COMMIT_FAIL, L.FK_GEN)], [(L.EV_FETCH_OK, [], 1)], [(L.EV_PLAN, 0, 1), (L.EV_FIRE_RETRY,), (L.EV_FETCH_OK, "next", 0)],
               [(L.EV_SHUTDOWN,), (L.EV_PROC_FIRE, 0)], [(L.EV_SHUTDOWN,), (L.EV_COMMIT_FAIL, L.FK_OTHER)]]
    ndir = 0
    for rep in range(2 * scale):
        for name, kw, pre in preambles(rnd) + [
                ("processed-uncommitted+processor-pending", dict(group=1, acn=0),
                 [(L.EV_START, 0), (L.EV_PLAN, 0, 0), (L.EV_FETCH_OK, [0, 1], 0), (L.EV_FIRE_RETRY,), (L.EV_FETCH_OK, [2], 0)])]:
            for fail in FAILERS:
                hook = rnd.choice([1, 1, 1, 2, 3])
                cfg = L.Cfg(**dict(dict(maxatt=1, buf=4096, maxbuf=4096), **kw))
                L.quiet()
                d0 = HookedDriver(cfg, hook)
                evs = []
                for ev in list(pre) + list(fail):
                    if ev[0] == L.EV_FETCH_OK and ev[1] == "next":
                        last = [a for (_, what, a) in d0.sent if what == "fetch"]
                        ev = (L.EV_FETCH_OK, [(last[-1][0] if last else 0)], ev[2])
                    evs.append(ev)
                    d0.step(ev)
                for _ in range(rnd.randint(0, 5)):
                    ev = L.gen_event(rnd, d0, {L.EV_START: 2, L.EV_STOP: 1, L.EV_SHUTDOWN: 1, L.EV_COMMIT: 0.5, L.EV_PLAN: 1})
                    evs.append(ev)
                    d0.step(ev)
                drvh, obsh, marks = run_hooked(cfg, evs, hook)
                ndir += 1
                nh += len(drvh.hook_log)
                ck.hist("hooked_errback:%d" % hook, len(drvh.hook_log))
                bh = monitor_hooked(cfg, evs, drvh, obsh, marks)
                if bh:
                    hooked_bad += 1
                    if hooked_bad <= 3:
                        small = L.shrink(cfg, evs, lambda c, e: bool(monitor_hooked(c, e, *run_hooked(c, e, hook))))
                        d2, o2, m2 = run_hooked(cfg, small, hook)
                        b2 = monitor_hooked(cfg, small, d2, o2, m2) or bh
                        ck.violation({"kind": "monitor failed on the implementation's trace (re-entrant callback on the start Deferred)", "theorem": b2[0][0],
                                      "step": b2[0][1], "what": b2[0][2], "hook": {1: "stop()", 2: "commit()", 3: "shutdown()"}[hook], "state_class": name,
                                      "cfg": cfg.line(), "events": [list(e) for e in small], "impl_trace": d2.trace, "replay_op": "hooked", "hook_code": hook})
    # start() from a CALLBACK of the start Deferred, at the moment stop() reports the consumer stopped (C13-m9, C14-m8)
    rruns, rrestarts, rfail = L.restart_cb_family(ck, rnd, [(n_, k_, p_) for (n_, k_, p_) in preambles(rnd)], 1 * scale)
    ck.cov["restart_from_start_callback_runs"] = {"runs": rruns, "restarts_made": rrestarts, "failing": rfail}
    obs7, cfg7, evs7, drv7, _o7 = L.probe_F_C13_7()
    ck.finding("F-C13-7", obs7,
               "start() from a callback of the start Deferred fired by the stop() that ends shutdown(): when the nested start's first "
               "request fails at once the retry is dropped (the shutting-down flag is still set): started, no request, no retry timer",
               {"kind": "repaired defect observed again", "cfg": cfg7.line(), "events": [list(e) for e in evs7], "impl_trace": drv7.trace,
                "mode": "cb", "fail_first": True, "replay_op": "restartcb"})
    ck.cov["hooked_start_errback_runs"] = {"random_cases": 250 * scale, "directed_cases": ndir, "hook_invocations": nh, "failing": hooked_bad}

    nbad = 0
    for label, items in batches:
        runs = [L.run_observed(cfg, evs) for cfg, evs in items]
        cases = [L.case_line(cfg, evs) for cfg, evs in items]
        impl = [drv.trace for drv, _ in runs]
        for (cfg, evs), (drv, obs) in zip(items, runs):
            for ev in evs:
                ck.hist(L.EV_NAMES[ev[0]])
            st, _ = L.split_steps(drv.trace)
            for ev, s_ in zip(evs, st):
                if ev[0] == L.EV_STOP:
                    ck.hist("stop:" + ("returned" if any(o[0] == L.OUT_RET for o in s_) else "raised"))
                for o in s_:
                    if o[0] == L.OUT_SHUTDOWN_D:
                        ck.hist("shutdown_d:%s" % ("ok" if o[1] else "fail%d" % o[2]))
                    if o[0] == L.OUT_START_D:
                        ck.hist("start_d:%s" % ("ok" if o[1] else "fail%d" % o[2]))
                    if o[0] in (L.OUT_CANCEL_REQ, L.OUT_CANCEL_TIMER, L.OUT_CANCEL_PROC):
                        ck.hist("cancel:%d:%s" % (o[0], o[1] if len(o) > 1 else ""))
        diffs, mo = L.correspond(ck, MODEL, MODULE, cases, impl, label,
                                  nontrivial=lambda c, o: (L.OUT_CANCEL_REQ in o or L.OUT_CANCEL_TIMER in o or L.OUT_CANCEL_PROC in o or L.OUT_SHUTDOWN_D in o), describe=describe)
        for idx, ((cfg, evs), (drv, obs)) in enumerate(zip(items, runs)):
            bad = monitor(cfg, evs, drv.trace, obs)
            if bad:
                nbad += 1
                small = L.shrink(cfg, evs, fails_on_impl) if nbad <= 3 else evs
                d2, o2 = L.run_observed(cfg, small)
                report(ck, cfg, small, monitor(cfg, small, d2.trace, o2) or bad, d2.trace, label)
            mbad = monitor(cfg, evs, mo[idx], None)
            if mbad and not bad and idx not in diffs:
                ck.violation({"kind": "monitor fails on the MODEL's trace (proof obligation and monitor disagree)", "what": [list(b) for b in mbad[:3]],
                              "cfg": cfg.line(), "events": [list(e) for e in evs]}, no_input=True)
        if diffs and not nbad:
            found = False
            for i in diffs[:4]:
                cfg, evs = items[i]
                drv0 = runs[i][0]
                for _ in range(40):
                    ext = list(evs)
                    d3 = L.run_impl(cfg, ext)
                    for _ in range(6):
                        ev = L.gen_event(rnd, d3, C13_WEIGHTS)
                        ext.append(ev)
                        d3.step(ev)
                    d2, o2 = L.run_observed(cfg, ext)
                    b2 = monitor(cfg, ext, d2.trace, o2)
                    if b2:
                        small = L.shrink(cfg, ext, fails_on_impl)
                        d4, o4 = L.run_observed(cfg, small)
                        report(ck, cfg, small, monitor(cfg, small, d4.trace, o4) or b2, d4.trace, label + " (search around a correspondence difference)")
                        found = True
                        break
                if found:
                    break
            if not found:
                cfg, evs = items[diffs[0]]
                small = L.shrink(cfg, evs, lambda c, e: L.canon_trace(L.run_impl(c, e).trace) != L.canon_trace(ck.model(MODEL, [L.case_line(c, e)])[0]))
                d2 = L.run_impl(cfg, small)
                m2 = ck.model(MODEL, [L.case_line(cfg, small)])[0]
                k, a, b = L.first_difference(d2.trace, m2)
                ck.violation({"kind": "correspondence broken: the Consumer no longer behaves like the proved model",
                              "correspondence": "corr:consumer:trace", "theorems_no_longer_tied": THEOREMS,
                              "cfg": cfg.line(), "events": [list(e) for e in small], "first_differing_step": k,
                              "event_there": list(small[k]) if k < len(small) else None, "impl_step": a, "model_step": b,
                              "differences": len(diffs), "of": len(items), "replay_op": "case"}, no_input=True)
        for op, what in ((2, "invariants Model.Consumer.invs"), (3, "Model.Consumer.mon_step (quiescence, start once, shutdown commits, stop returns)")):
            res = ck.model(MODEL, [[op] + c[1:] for c in cases])
            badm = [(i, r) for i, r in enumerate(res) if r]
            ck.cov.setdefault("model_side_checks", {})[what + " :: " + label] = {"cases": len(cases), "failing": len(badm)}
            if badm and not ck.violations:
                i, r = badm[0]
                ck.violation({"kind": "model-side check fails (statement of a theorem is false of the model on this case)", "check": what,
                              "result": r, "cfg": items[i][0].line(), "events": [list(e) for e in items[i][1]]}, no_input=True)

    if thorough:
        ck.coqchk(["AV.Props.C13"])
    ck.cov["rule"] = ("seeded (random.Random(VERIF_SEED)): (a) stop()/shutdown() issued from 21 directed state classes (resolving offsets, "
                      "fetching, reply parked, processing, waiting to retry, manual/automatic/timer commit in flight or in back-off, commit "
                      "waiters queued, stop()/commit()/shutdown() from inside the processor, start Deferred already failed, shutdown in each of its phases) followed by "
                      "random orderings of the outstanding replies and further API calls incl. restart; (b) state-aware random sequences over "
                      "the 14-event alphabet with stop/shutdown/commit-heavy weights; (c) corpus of the seven repaired defects (F-C13-1..6, F-C03-2) and graceful-shutdown cases; (d) long fetches of 20-120 processor blocks; (e) implementation-side only, no model counterpart: callbacks of the start Deferred that re-enter the consumer - errback -> stop()/commit()/shutdown() (random + 22 state classes x 9 ways to fail the start Deferred), callback/addBoth -> start(next offset) at the moment stop() fires it (22 state classes x 3 kinds of stop x first request failing at once or not), probe of repaired F-C13-7. Non-trivial = "
                      "the run cancels something or completes a shutdown; distinct = distinct canonical case lines.")
    ck.assumptions += [
        "Model/Consumer.v is a hand transcription of afkak/consumer.py:290-1131 (tie = this run's trace correspondence, not proof)",
        "what is 'left running' on the implementation side = reactor.getDelayedCalls() of the task.Clock, client Deferreds neither fired nor "
        "cancelled, processor Deferreds not fired; the client is a scripted stand-in",
        "Twisted Deferred cancellation / callback-chain re-entrancy, DelayedCall and LoopingCall semantics as summarised at the top of "
        "Model/Consumer.v (exercised by the correspondence, not verified)",
        "C13_quiescent_after_stop is proved for every state with _stopping clear and no auto-commit tick in progress; the run-level theorems "
        "(C13_reachable_invariant, C13_every_stop_quiescent [application stop() events], C13_shutdown_commits, C13_not_started_idle) carry the "
        "hypothesis all_fuel_ok, which C13_fuel_enough discharges for every configuration the constructor accepts (auto_commit_every_n >= 0): "
        "the _all forms (Props/C13all.v) state them as exists fuel0, forall fuel >= fuel0",
        "Props/C13all.v (7 of the 42 theorems: the _all forms C13_reachable_invariant_all, C13_every_stop_quiescent_all, C13_shutdown_commits_all, "
        "C13_not_started_idle_all, C13_not_started_commit_idle_all, C13_shutdown_bookkeeping_all, C13_stop_then_restart_delivers_all - one-line corollaries of C13_fuel_enough and the theorem of the same name without _all, both in Props/C13.v) "
        "is re-checked by ck.props only on the thorough tier; on the quick tier it is built by make and its 7 obligations are NOT re-checked",
        "the shutdown bookkeeping is consistent in every reachable state (C13_shutdown_bookkeeping = invs item 5, proved; still evaluated "
        "model-side on every case), so any stop() that returns clears it (C13_stop_clears_shutdown) and a stopped consumer delivers again "
        "after start() (C13_stop_then_restart_delivers); NOT proved: a processor / auto-commit failure reaching the start Deferred is held by "
        "trace equality only",
        "the harness gives the model fuel 60 + #events + 2 x #messages (consumer_lib.fuel_for), not the proved bound BE; a case needing more would "
        "surface as a trace difference (the implementation never emits the out-of-fuel marker)",
    ]
    ck.cov["trusted_base"] += ["correspondence harness harness/props/C13.py + consumer_lib.py + vlib.py",
                               "extracted OCaml runner (ExtrOcamlBasic) cross-checked by vm_compute sample"]


def replay(rp):
    import json
    if rp.get("replay_op") == "hooked":
        cfg = L.Cfg.from_line(rp["cfg"])
        events = [tuple(e) for e in rp["events"]]
        drv, obs, marks = run_hooked(cfg, events, rp["hook_code"])
        L.print_case(cfg, events, drv.trace)
        print("hook log:", drv.hook_log)
        bad = monitor_hooked(cfg, events, drv, obs, marks)
        print("monitor verdict:", bad if bad else "passes")
        return 1 if bad else 0
    if rp.get("replay_op") == "restartcb":
        return L.replay_restart_cb(rp)
    if rp.get("replay_op") != "case":
        print(json.dumps(rp, indent=1, default=repr)[:4000])
        return 1
    cfg = L.Cfg.from_line(rp["cfg"])
    events = [tuple(e) for e in rp["events"]]
    drv, obs = L.run_observed(cfg, events)
    L.print_case(cfg, events, drv.trace)
    print("left running after each step:", [("idle" if idle(o) else o) for o in obs])
    bad = monitor(cfg, events, drv.trace, obs)
    print("monitor verdict:", bad if bad else "passes")
    if rp.get("correspondence"):
        print("correspondence replay: compare with the model via ./check C13 quick")
        return 1
    return 1 if bad else 0
