# Shared by C11 and C20: drives the REAL afkak KafkaClient with REAL _KafkaBrokerClient instances over harness/simnet.py
# (virtual clock, puppet endpoints, recording transports) through an event sequence of coq/Model/ClientReq.v, and turns
# what happened into the canonical trace that Model.ClientReq.run_case prints for the same events.
#
# Names shared with the model (creation order): broker clients i, DelayedCalls t, bootstrap attempts a,
# direct requests d, broker-agnostic operations p.  See the header of coq/Model/ClientReq.v.
#
# Events (python tuples)                  case-line integers
#   ("send", node, expect, mint_ms)        1 node expect mint
#   ("cancelreq", d)                       2 d
#   ("op", kind, all)                      3 kind all
#   ("update", [(node, addr)..], remove)   4 remove <lp node addr ..>
#   ("close",)                             5
#   ("reset",)                             6
#   ("ok", i) ("fail", i) ("lost", i)      7 i / 8 i / 9 i
#   ("reply", i, rid, payload)             10 i rid <lp payload>
#   ("timer", t)                           11 t
#   ("bootok", a) ("bootfail", a)          12 a / 13 a
#   ("bootreply", a, rid, payload)         14 a rid <lp payload>
#   ("bootlost", a)                        15 a
# ("tick", seconds) advances virtual time without reaching a deadline; it is not an event of the model.
#
# Nothing here imports afkak's codec for the network side: requests are recognised by their header and the metadata
# responses are encoded by the small independent encoder below (Kafka protocol guide, Metadata v0).
import random
import struct

import simnet
from vlib import lp

NODES = 6               # node ids 0..5 (< 8: CPython iterates small-int sets in ascending order, see the model header)
API_DIRECT = 77


# ------------------------------------------------------------------ naming
def host_of(addr):
    return "h%03d" % addr


def port_of(addr):
    return 9092 + addr


def addr_of(host, port):
    try:
        if isinstance(host, bytes):
            host = host.decode()
        a = int(host[1:])
        if host == host_of(a) and port == port_of(a):
            return a
    except Exception:
        pass
    return -1


# ------------------------------------------------------------------ independent wire encoding
def _s16(s):
    b = s.encode() if isinstance(s, str) else s
    return struct.pack(">h", len(b)) + b


def header(api, ver, corr, client_id=b"verif"):
    return struct.pack(">hhi", api, ver, corr) + _s16(client_id)


def metadata_request(corr, topics=()):
    b = header(3, 0, corr) + struct.pack(">i", len(topics))
    for t in topics:
        b += _s16(t)
    return b


def s32(rid):
    return ((rid + 2 ** 31) % 2 ** 32) - 2 ** 31


def metadata_response(corr, brokers, topics):
    """brokers: [(node, addr)], topics: [topic id]  (Metadata v0)"""
    b = struct.pack(">ii", s32(corr), len(brokers))
    for n, a in brokers:
        b += struct.pack(">i", n) + _s16(host_of(a)) + struct.pack(">i", port_of(a))
    b += struct.pack(">i", len(topics))
    leader = brokers[0][0] if brokers else -1
    for t in topics:
        if t >= 4:        # abstract topic ids >= 4: a topic in error (LEADER_NOT_AVAILABLE) without partitions
            b += struct.pack(">h", 5) + _s16("t%d" % t) + struct.pack(">i", 0)
            continue
        b += struct.pack(">h", 0) + _s16("t%d" % t) + struct.pack(">i", 1)
        reps = [leader] if leader >= 0 else []
        b += struct.pack(">hiii", 0, 0, leader, len(reps)) + b"".join(struct.pack(">i", x) for x in reps)
        b += struct.pack(">i", len(reps)) + b"".join(struct.pack(">i", x) for x in reps)
    return b


def parse_meta_payload(payload):
    """abstract payload <lp node addr ..> <lp topic ..> -> (brokers, topics) or None"""
    try:
        n = payload[0]
        bs = payload[1:1 + n]
        rest = payload[1 + n:]
        m = rest[0]
        ts = rest[1:1 + m]
        if n < 0 or m < 0 or len(bs) != n or len(ts) != m or len(rest) != 1 + m or n % 2:
            return None
        return [(bs[k], bs[k + 1]) for k in range(0, n, 2)], list(ts)
    except Exception:
        return None


def meta_payload(brokers, topics):
    return lp([x for b in brokers for x in b]) + lp(topics)


def shuf(mode, lst):
    """the permutation the model applies (Model.ClientReq.shuf)"""
    if not lst:
        return []
    k = (mode // 2) % len(lst)
    r = lst[k:] + lst[:k]
    return r[::-1] if mode % 2 else r


# ------------------------------------------------------------------ case line
def enc_event(ev):
    k = ev[0]
    if k == "send":
        return [1, ev[1], 1 if ev[2] else 0, ev[3]]
    if k == "cancelreq":
        return [2, ev[1]]
    if k == "op":
        return [3, ev[1], 1 if ev[2] else 0]
    if k == "update":
        return [4, 1 if ev[2] else 0] + lp([x for b in ev[1] for x in b])
    if k == "close":
        return [5]
    if k == "reset":
        return [6]
    if k in ("ok", "fail", "lost"):
        return [{"ok": 7, "fail": 8, "lost": 9}[k], ev[1]]
    if k == "reply":
        return [10, ev[1], ev[2]] + lp(ev[3])
    if k == "timer":
        return [11, ev[1]]
    if k in ("bootok", "bootfail"):
        return [12 if k == "bootok" else 13, ev[1]]
    if k == "bootreply":
        return [14, ev[1], ev[2]] + lp(ev[3])
    if k == "bootlost":
        return [15, ev[1]]
    if k == "resend":
        return [16, ev[1], 1 if ev[2] else 0, ev[3]]
    raise ValueError(ev)


def enc_case(cfg, events):
    out = [cfg["timeout"], 1 if cfg["dot"] else 0, cfg["mode"], cfg["corr0"]] + lp(cfg["hosts"])
    for e in events:
        if e[0] != "tick":
            out += enc_event(e)
    return out


def enc_res(code, payload):
    return [code] + (lp(payload) if code == 1 else [])


def enc_out(o):
    """-> (actor class, actor id, integers)"""
    k = o[0]
    if k == "connect":
        return (1, o[1], [1, o[1], o[2]])
    if k == "write":
        return (1, o[1], [2, o[1], o[2]])
    if k == "lose":
        return (1, o[1], [3, o[1]])
    if k == "cancel_attempt":
        return (1, o[1], [4, o[1]])
    if k == "sched":
        return (2, o[1], [5, o[1], o[2], o[3]])
    if k == "cancel_timer":
        return (2, o[1], [6, o[1]])
    if k == "bootconnect":
        return (3, o[1], [7, o[1], o[2]])
    if k == "bootwrite":
        return (3, o[1], [8, o[1], o[2]])
    if k == "bootlose":
        return (3, o[1], [9, o[1]])
    if k == "bootcancel":
        return (3, o[1], [10, o[1]])
    if k == "req":
        return (4, o[1], [11, o[1]] + enc_res(o[2], o[3]))
    if k == "opres":
        return (5, o[1], [12, o[1]] + enc_res(o[2], o[3]))
    if k == "closefired":
        return (6, 0, [13])
    if k == "raised":
        return (6, 0, [14, o[1]])
    return (6, 0, [15, 99])      # anything the model has no word for (abortConnection, ...)


def enc_trace(records):
    out = []
    for rec in records:
        out += [0, rec["ntimers"], rec["ntopics"]]
        for _c, _i, ints in sorted((enc_out(o) for o in rec["outs"]), key=lambda x: (x[0], x[1])):   # sorted() is stable
            out += ints
    return out


# ------------------------------------------------------------------ clock with firing markers
class MarkClock(simnet.SimClock):
    """SimClock that also records ("fired", id) when a DelayedCall runs, so that the effects of several calls that
    come due in one advance() can be told apart."""

    def callLater(self, delay, f, *a, **kw):
        holder = {"due": self.seconds() + delay}     # the deadline task.Clock computes at issue

        def run(*a2, **kw2):
            self.log.append(("fired", holder["id"]))
            if self.seconds() != holder["due"]:
                # fired at another instant than issue + delay: somebody used DelayedCall.delay()/reset()
                self.log.append(("reset_timer", holder["id"]))
            return f(*a2, **kw2)
        dc = simnet.SimClock.callLater(self, delay, run, *a, **kw)
        holder["id"] = dc.sim_id
        orig_reset = dc.resetter

        def resetting(call, orig=orig_reset):      # DelayedCall.reset()/delay(): the model never moves a deadline
            self.log.append(("reset_timer", call.sim_id))
            orig(call)
        dc.resetter = resetting
        return dc

    def fire_next(self):
        """set virtual time EXACTLY to the earliest deadline (no float rounding of now + (deadline - now)) and run
        what is due"""
        p = self.pending()
        if not p:
            return None
        self.rightNow = max(self.rightNow, p[0].getTime())
        self.advance(0)
        return p[0]

    def tick(self, dt):
        """advance by dt only if that stays strictly before every deadline (in the float arithmetic advance() uses)"""
        p = self.pending()
        for cand in (dt, dt / 2.0, dt / 16.0):
            if cand > 0 and (not p or self.rightNow + cand < p[0].getTime()):
                self.advance(cand)
                return cand
        return 0.0


class RealisticAttempt(simnet.Attempt):
    """A connection attempt that reports cancellation the way Twisted's stock endpoints do (TCP4ClientEndpoint,
    HostnameEndpoint, the TLS wrappers): the canceller itself fails the Deferred with ConnectingCancelledError,
    which is NOT a defer.CancelledError."""

    def _cancelled(self, d):
        from twisted.internet.error import ConnectingCancelledError
        simnet.Attempt._cancelled(self, d)
        d.errback(ConnectingCancelledError(simnet.SimAddress(self.host, self.port)))


class RealisticEndpoint(simnet.PuppetEndpoint):
    def connect(self, factory):
        net = self.net
        net._attempts += 1
        a = RealisticAttempt(net, net._attempts, self.host, self.port, factory)
        net.attempts.append(a)
        net.log.append(("connect", a.attempt_id, self.host, self.port))
        return a.d


class RealisticNet(simnet.SimNet):
    def __call__(self, reactor, host, port):
        self.calls.append((host, port))
        return RealisticEndpoint(self, host, port)


class Policy(object):
    """retry policy with values that no request timeout can equal; remembers its arguments"""

    def __init__(self):
        self.calls = []

    @staticmethod
    def value(k):
        return 0.3 + k / 7.0

    def __call__(self, k):
        self.calls.append(k)
        return self.value(k)


# ------------------------------------------------------------------ the implementation under test
class Impl(object):
    def __init__(self, cfg):
        from afkak.client import KafkaClient
        self.cfg = cfg
        self.log = []
        self.clock = MarkClock(self.log)
        # cfg["cancel"]: how a cancelled connection attempt fails - "plain" (a bare Deferred: defer.CancelledError) or
        # "connecting" (Twisted's endpoints: error.ConnectingCancelledError).  Not an input of the model: the code may not care.
        self.net = RealisticNet(self.log) if cfg.get("cancel", "plain") == "connecting" else simnet.SimNet(self.log)
        self.policy = Policy()
        self.client = KafkaClient([(host_of(a), port_of(a)) for a in cfg["hosts"]], reactor=self.clock,
                                  endpoint_factory=self.net, retry_policy=self.policy, timeout=cfg["timeout"],
                                  disconnect_on_timeout=cfg["dot"], correlation_id=cfg["corr0"],
                                  enable_protocol_version_discovery=False)
        self.bcs = []             # broker client factories in order of first connect
        self.boots = []           # bootstrap Attempt objects in order
        self.att_name = {}        # attempt_id -> ("bc", i) | ("boot", a)
        self.conn_name = {}       # conn_id -> the same
        self.directs = []         # Deferreds of direct requests
        self.direct_rid = []
        self.direct_bc = []       # the broker client object each went to
        self.ops = []             # (kind, rid)
        self.rid_kind = {}        # rid -> "direct" | "raw" | "meta"
        self.records = []
        self.closed = False

    # ---- environment facts
    def bc_attempt(self, i):
        f = self.bcs[i]
        p = [a for a in self.net.pending() if a.factory is f]
        return p[-1] if p else None

    def bc_transport(self, i):
        f = self.bcs[i]
        for a in reversed(self.net.attempts):
            if a.factory is f and a.transport is not None and a.transport.live:
                return a.transport
        return None

    def boot_attempt(self, a):
        return self.boots[a] if a < len(self.boots) else None

    def armed(self):
        """armed DelayedCalls as model names, earliest first"""
        return [c.sim_id - 1 for c in self.clock.pending()]

    def next_deadline(self):
        p = self.clock.pending()
        return (p[0].getTime() - self.clock.seconds()) if p else None

    def enabled(self, ev):
        k = ev[0]
        if k in ("ok", "fail"):
            return ev[1] < len(self.bcs) and self.bc_attempt(ev[1]) is not None
        if k in ("lost", "reply"):
            return ev[1] < len(self.bcs) and self.bc_transport(ev[1]) is not None
        if k == "timer":
            a = self.armed()
            return bool(a) and a[0] == ev[1]
        if k in ("bootok", "bootfail"):
            at = self.boot_attempt(ev[1])
            return at is not None and at.state == "pending"
        if k in ("bootreply", "bootlost"):
            at = self.boot_attempt(ev[1])
            return at is not None and at.transport is not None and at.transport.live
        if k == "cancelreq":
            return 0 <= ev[1] < len(self.directs)
        if k == "resend":
            return 0 <= ev[1] < len(self.directs) and not self.closed
        return True

    # ---- Deferred outcomes -> the enum of the model
    def _watch(self, d, what, idx, is_load=False):
        from afkak import common as C
        from twisted.internet.defer import CancelledError as TCancelled

        def cb(result):
            if isinstance(result, bytes):
                self.log.append(("res", what, idx, 1, list(result[4:])))
            elif result is None:
                self.log.append(("res", what, idx, 9 if is_load else 2, None))
            elif result is True:
                self.log.append(("res", what, idx, 8, None))
            elif isinstance(result, dict):
                self.log.append(("res", what, idx, 11, None))
            else:
                self.log.append(("res", what, idx, 99, None))

        def eb(f):
            e = f.value
            if isinstance(e, TCancelled):
                code = 3
            elif isinstance(e, C.RequestTimedOutError):
                code = 5
            elif isinstance(e, C.KafkaUnavailableError):
                code = 6
            elif isinstance(e, C.CancelledError):
                code = 7
            elif isinstance(e, C.ClientError):
                code = 4
            elif isinstance(e, KeyError):
                code = 10
            else:
                code = 99
            self.log.append(("res", what, idx, code, None))
        d.addCallbacks(cb, eb)

    # ---- one event
    def apply(self, ev):
        """apply one event to the real client.  Returns the list of records it produced: one per model event
        (a "timer" event may stand for several DelayedCalls that come due together: one record each)."""
        en = self.enabled(ev)
        del self.log[:]
        old = random.shuffle
        mode = self.cfg["mode"]

        def det_shuffle(lst):
            lst[:] = shuf(mode, list(lst))
        random.shuffle = det_shuffle
        self._last_send = None
        try:
            if en:
                self._do(ev)
        except Exception as e:      # anything escaping the implementation is an observable, not a harness failure
            self.log.append(("raised", 99, "%s: %s" % (type(e).__name__, str(e)[:120])))
        finally:
            random.shuffle = old
        log = list(self.log)
        recs = []
        if ev[0] == "timer" and en:
            # split at the firing markers
            groups, cur, name = [], None, None
            pre = []
            for e in log:
                if e[0] == "fired":
                    if cur is not None:
                        groups.append((name, cur))
                    name, cur = e[1] - 1, []
                elif cur is None:
                    pre.append(e)
                else:
                    cur.append(e)
            if cur is not None:
                groups.append((name, cur))
            if pre or not groups:
                groups.insert(0, (ev[1], pre))     # should not happen: effects before any call ran / nothing ran
            for n, (t, lg) in enumerate(groups):
                last = n == len(groups) - 1
                recs.append(self._record(("timer", t), lg, en, final=last))
        else:
            recs.append(self._record(ev, [e for e in log if e[0] != "fired"], en, final=True))
        if self._last_send is not None:
            bc, rid = self._last_send
            recs[-1]["rid"] = rid
            recs[-1]["bc"] = next((i for i, f in enumerate(self.bcs) if f is bc), None)
        self.records += recs
        return recs

    def _record(self, ev, log, en, final):
        outs = self._canon(log)
        c = self.client
        return {"ev": ev, "enabled": en, "outs": outs,
                # counts are taken after the whole advance; for all but the last call of a group they are patched below
                "ntimers": len(self.clock.getDelayedCalls()) if final else None,
                "ntopics": len(c.topic_errors),
                "caches": (len(c.topic_errors), len(c.topics_to_brokers), len(c.topic_partitions), len(c.consumer_group_to_brokers)),
                "live_bc": [i for i in range(len(self.bcs)) if self.bc_transport(i) is not None],
                "live_boot": [a for a, at in enumerate(self.boots) if at.transport is not None and at.transport.live],
                "closed": self.closed}

    def _do(self, ev):
        from afkak import common as C
        from afkak.common import BrokerMetadata
        k = ev[0]
        c = self.client
        log = self.log
        if k == "tick":
            self.clock.tick(ev[1])                      # never reaches (or rounds up to) a deadline
        elif k == "send":
            node, expect, mint = ev[1], ev[2], ev[3]
            try:
                bc = c._get_brokerclient(node)
            except C.ClientError:
                log.append(("raised", 4))
                return
            except KeyError:
                log.append(("raised", 6))
                return
            rid = c._next_id()
            req = header(API_DIRECT, 0, rid) + b"D"
            self.rid_kind.setdefault(rid, "direct")
            self._last_send = (bc, rid)
            try:
                d = c._make_request_to_broker(bc, rid, req, expectResponse=bool(expect),
                                              min_timeout=None if mint < 0 else mint / 1000.0)
            except C.DuplicateRequestError:
                log.append(("raised", 1))
            else:
                self._watch(d, "req", len(self.directs))
                self.directs.append(d)
                self.direct_rid.append(rid)
                self.direct_bc.append(bc)
        elif k == "resend":
            # the SAME correlation id issued again to the same broker client (what fetch_api_versions does for its retries)
            d0, expect, mint = ev[1], ev[2], ev[3]
            bc, rid = self.direct_bc[d0], self.direct_rid[d0]
            req = header(API_DIRECT, 0, rid) + b"D"
            self._last_send = (bc, rid)
            try:
                d = c._make_request_to_broker(bc, rid, req, expectResponse=bool(expect),
                                              min_timeout=None if mint < 0 else mint / 1000.0)
            except C.DuplicateRequestError:
                log.append(("raised", 1))
            else:
                self._watch(d, "req", len(self.directs))
                self.directs.append(d)
                self.direct_rid.append(rid)
                self.direct_bc.append(bc)
        elif k == "cancelreq":
            self.directs[ev[1]].cancel()
        elif k == "op":
            kind, al = ev[1], ev[2]
            p = len(self.ops)
            if kind == 1:
                d = c.load_metadata_for_topics(*([] if al else ["t0"]))
                rid = c.correlation_id
                self.rid_kind[rid] = "meta"
            elif kind == 2:
                d = c._load_topic_partitions("t0")
                rid = c.correlation_id
                self.rid_kind[rid] = "meta"
            else:
                rid = c._next_id()
                self.rid_kind[rid] = "raw"
                d = c._send_broker_unaware_request(rid, metadata_request(rid))
            self.ops.append((kind, rid))
            self._watch(d, "opres", p, is_load=(kind == 1))
        elif k == "update":
            try:
                c._update_brokers([BrokerMetadata(n, host_of(a), port_of(a)) for n, a in ev[1]], remove=bool(ev[2]))
            except TypeError:
                log.append(("raised", 7))
        elif k == "close":
            try:
                d = c.close()
            except AttributeError:
                log.append(("raised", 8))
            else:
                self.closed = True
                d.addCallback(lambda _: self.log.append(("closefired",)))
        elif k == "reset":
            c.reset_all_metadata()
        elif k == "ok":
            self.bc_attempt(ev[1]).accept()
        elif k == "fail":
            self.bc_attempt(ev[1]).fail()
        elif k == "lost":
            self.bc_transport(ev[1]).report_lost()
        elif k == "reply":
            self.bc_transport(ev[1]).deliver(simnet.frame(self.response_bytes(ev[2], ev[3])))
        elif k == "timer":
            before = c.correlation_id
            self.clock.fire_next()
            # every correlation id taken while DelayedCalls run belongs to a retry of _load_topic_partitions (several may come
            # due together): its request is a metadata request
            n = (c.correlation_id - before) % 2 ** 31
            for j in range(1, min(n, 64) + 1):
                self.rid_kind.setdefault((before + j) % 2 ** 31, "meta")
        elif k == "bootok":
            self.boots[ev[1]].accept()
        elif k == "bootfail":
            self.boots[ev[1]].fail()
        elif k == "bootreply":
            self.boots[ev[1]].transport.deliver(simnet.frame(self.response_bytes(ev[2], ev[3])))
        elif k == "bootlost":
            self.boots[ev[1]].transport.report_lost()
        else:
            raise ValueError(ev)

    def response_bytes(self, rid, payload):
        if self.rid_kind.get(rid) == "meta":
            pm = parse_meta_payload(list(payload))
            if pm is not None:
                return metadata_response(rid, pm[0], pm[1])
        return struct.pack(">i", s32(rid)) + bytes(payload)

    # ---- the log of one event -> model outputs
    def _attempt_name(self, attempt_id):
        if attempt_id in self.att_name:
            return self.att_name[attempt_id]
        at = self.net.attempts[attempt_id - 1]
        if getattr(at.factory, "node_id", None) is not None and hasattr(at.factory, "makeRequest"):
            for i, f in enumerate(self.bcs):
                if f is at.factory:
                    break
            else:
                self.bcs.append(at.factory)
                i = len(self.bcs) - 1
            name = ("bc", i)
        else:
            self.boots.append(at)
            name = ("boot", len(self.boots) - 1)
        self.att_name[attempt_id] = name
        return name

    def _conn_name(self, conn_id):
        if conn_id not in self.conn_name:
            for at in self.net.attempts:
                if at.transport is not None and at.transport.conn_id == conn_id:
                    self.conn_name[conn_id] = self._attempt_name(at.attempt_id)
                    break
            else:
                self.conn_name[conn_id] = ("?", -1)
        return self.conn_name[conn_id]

    def _canon(self, log):
        outs = []
        tmo = self.cfg["timeout"]
        for e in log:
            k = e[0]
            if k == "connect":
                kind, n = self._attempt_name(e[1])
                outs.append(("connect" if kind == "bc" else "bootconnect", n, addr_of(e[2], e[3])))
            elif k == "cancel_attempt":
                kind, n = self._attempt_name(e[1])
                outs.append(("cancel_attempt" if kind == "bc" else "bootcancel", n))
            elif k == "write":
                kind, n = self._conn_name(e[1])
                data = e[2]
                rid = -1
                if len(data) >= 12 and struct.unpack(">I", data[:4])[0] == len(data) - 4:
                    rid = struct.unpack(">i", data[8:12])[0]
                outs.append(("write" if kind == "bc" else "bootwrite", n, rid))
            elif k == "lose":
                kind, n = self._conn_name(e[1])
                outs.append(("lose" if kind == "bc" else "bootlose", n))
            elif k == "sched":
                t, delay = e[1] - 1, e[2]
                kind, val = 99, 0
                if isinstance(delay, float):
                    ms = int(round(delay * 1000.0))
                    if (ms / 1000.0).hex() == delay.hex():
                        kind, val = 2, ms        # bit for bit the float that <ms> milliseconds denote
                    elif self.policy.calls and Policy.value(self.policy.calls[-1]).hex() == delay.hex():
                        kind, val = 1, self.policy.calls[-1]
                outs.append(("sched", t, kind, val))
            elif k == "cancel_timer":
                outs.append(("cancel_timer", e[1] - 1))
            elif k == "res":
                outs.append((e[1], e[2], e[3], e[4]))
            elif k == "closefired":
                outs.append(("closefired",))
            elif k == "raised":
                outs.append(("raised", e[1]) + tuple(e[2:]))
            elif k == "abort":
                outs.append(("abort", e[1]))
            elif k == "reset_timer":
                outs.append(("reset_timer", e[1] - 1))
        return outs


def run_impl(cfg, events):
    """-> (model events actually performed, records)"""
    im = Impl(cfg)
    done = []
    for ev in events:
        recs = im.apply(ev)
        if ev[0] != "tick":
            done += [r["ev"] for r in recs]
    fix_timer_counts(im.records)
    return done, [r for r in im.records if r["ev"][0] != "tick"]


def fix_timer_counts(records):
    """DelayedCalls that come due together are fired by one advance(): the armed count after each one but the last is
    reconstructed from the outputs (armed after = armed before - 1 fired + scheduled - cancelled)."""
    armed = 0
    for r in records:
        if r["ev"][0] == "tick":
            continue
        n = armed
        if r["ev"][0] == "timer" and r["enabled"]:
            n -= 1
        for o in r["outs"]:
            if o[0] == "sched":
                n += 1
            elif o[0] == "cancel_timer":
                n -= 1
        if r["ntimers"] is None:
            r["ntimers"] = n
        armed = r["ntimers"]


# ------------------------------------------------------------------ on-line state-aware generator
PROFILES = {
    # emphasis on timers racing replies, several requests per connection, disconnect_on_timeout
    "c11": dict(send=24, cancelreq=3, resend=5, op=5, update=3, close=0.6, reset=0.5, ok=14, fail=3, lost=4, reply=22, late=7,
                timer=16, boot=8, tick=14),
    # emphasis on bootstrap, refreshes that remove brokers, close in every state and events after close
    "c20": dict(send=14, cancelreq=2, resend=1.5, op=14, update=8, close=3.0, reset=1.5, ok=12, fail=3, lost=8, reply=12, late=5,
                timer=8, boot=16, tick=6),
}


OP_KINDS = [0, 1, 1, 1, 2, 2] # kinds of broker-agnostic operations the generator issues (2 = _load_topic_partitions)
BAD_TOPICS = True             # metadata responses may name topics in error / without partitions (abstract ids >= 4)


class Gen(object):
    def __init__(self, rnd, profile="c11", length=40, cfg=None, close_at=None):
        self.rnd, self.w, self.length = rnd, PROFILES[profile], length
        if cfg is None:
            cfg = random_cfg(rnd)
        self.cfg = cfg
        self.im = Impl(cfg)
        self.close_at = close_at
        self.known = {}           # node -> addr the client was told about
        self.written = {}         # bc i -> rids written on its current connection, unanswered
        self.bootwritten = {}     # boot a -> rid written
        self.hist = {}
        self.events = []

    def h(self, key, n=1):
        self.hist[key] = self.hist.get(key, 0) + n

    def some_brokers(self):
        rnd = self.rnd
        k = rnd.choice([0, 1, 1, 2, 2, 3, 4])
        nodes = rnd.sample(range(NODES), min(k, NODES))
        out = []
        for n in nodes:
            a = self.known.get(n, n + 1) if rnd.random() < 0.8 else rnd.randint(1, 9)
            out.append((n, a))
        if out and rnd.random() < 0.08:
            out.append((out[0][0], rnd.randint(1, 9)))      # the same node twice: the last one wins
        return out

    def meta_payload(self):
        rnd = self.rnd
        bs = self.some_brokers()
        ts = rnd.sample(range(4), rnd.choice([0, 1, 1, 2]))
        if BAD_TOPICS and rnd.random() < 0.3:
            ts.append(rnd.randrange(4, 8))      # a topic in error / without partitions: _load_topic_partitions retries
            rnd.shuffle(ts)
        return meta_payload(bs, ts), bs

    def payload_for(self, rid):
        kind = self.im.rid_kind.get(rid)
        if kind == "meta":
            pl, bs = self.meta_payload()
            return pl, bs
        return [self.rnd.randint(0, 255) for _ in range(self.rnd.choice([0, 1, 3, 8]))], None

    def choose(self):
        rnd, im, w = self.rnd, self.im, self.w
        opts = []
        closed = im.closed
        post = 0.35 if closed else 1.0          # after close: mostly environment events
        opts.append((("send",), w["send"] * post))
        if im.directs:
            opts.append((("cancelreq",), w["cancelreq"]))
            opts.append((("resend",), w["resend"] * (0.1 if closed else 1.0)))
        opts.append((("op",), w["op"] * post))
        opts.append((("update",), w["update"] * post))
        opts.append((("close",), w["close"] * (0.5 if closed else 1.0)))
        opts.append((("reset",), w["reset"]))
        for i in range(len(im.bcs)):
            if im.bc_attempt(i) is not None:
                opts.append((("ok", i), w["ok"]))
                opts.append((("fail", i), w["fail"]))
            if im.bc_transport(i) is not None:
                opts.append((("lost", i), w["lost"]))
                if self.written.get(i):
                    opts.append((("reply", i), w["reply"]))
                opts.append((("late", i), w["late"]))
        if im.armed():
            opts.append((("timer",), w["timer"]))
        for a, at in enumerate(im.boots):
            if at.state == "pending":
                opts.append((("bootok", a), w["boot"]))
                opts.append((("bootfail", a), w["boot"] * 0.4))
            elif at.transport is not None and at.transport.live:
                zombie = at.transport.disconnecting
                opts.append((("bootlost", a), w["boot"] * (0.5 if zombie else 0.3)))
                opts.append((("bootreply", a), w["boot"] * (0.2 if zombie else 1.2)))
        opts.append((("tick",), w["tick"]))
        opts.append((("disabled",), 1.5))
        tot = sum(x[1] for x in opts)
        x = rnd.uniform(0, tot)
        for name, wt in opts:
            x -= wt
            if x <= 0:
                return name
        return opts[-1][0]

    def make_event(self):
        rnd, im = self.rnd, self.im
        c = self.choose()
        k = c[0]
        if k == "send":
            r = rnd.random()
            if self.known and r < 0.9:
                node = rnd.choice(sorted(self.known))
            else:
                node = rnd.randrange(NODES + 1)     # possibly unknown: KeyError
            expect = rnd.random() >= 0.12
            mint = rnd.choice([-1, -1, -1, -1, 1000, self.cfg["timeout"], self.cfg["timeout"] + 1, 30000])
            return ("send", node, expect, mint)
        if k == "cancelreq":
            return ("cancelreq", rnd.randrange(len(im.directs)))
        if k == "resend":
            # the same correlation id again: mostly a recent request (timed out, answered, still pending, ..)
            n = len(im.directs)
            d0 = n - 1 - min(n - 1, int(rnd.expovariate(0.7)))
            self.h("resend_same_id")
            return ("resend", d0, rnd.random() >= 0.1, rnd.choice([-1, -1, -1, 1000, 30000]))
        if k == "op":
            return ("op", rnd.choice(OP_KINDS), rnd.random() < 0.5)
        if k == "update":
            live = [i for i in range(len(im.bcs)) if im.bc_transport(i) is not None]
            if self.known and live and rnd.random() < 0.45:
                # a full refresh that keeps most of the known brokers and drops one or two: retires connected broker clients
                keep = [n for n in sorted(self.known) if rnd.random() < 0.7]
                return ("update", [(n, self.known[n]) for n in keep] or [(rnd.randrange(NODES), rnd.randint(1, 9))], True)
            return ("update", self.some_brokers(), rnd.random() < 0.35)
        if k in ("close", "reset", "ok", "fail", "lost", "bootok", "bootfail", "bootlost"):
            return c
        if k == "reply":
            i = c[1]
            w = self.written[i]
            rid = w[0] if rnd.random() < 0.6 else rnd.choice(w)
            pl, _bs = self.payload_for(rid)
            return ("reply", i, rid, pl)
        if k == "late":
            i = c[1]
            r = rnd.random()
            if r < 0.6 and (im.direct_rid or im.ops):
                rid = rnd.choice(im.direct_rid + [o[1] for o in im.ops])     # any id ever used: answered, timed out, elsewhere
            else:
                rid = rnd.choice([0, -1, 2 ** 31 - 1, -2 ** 31, 424242])
            self.h("late_or_unknown_reply")
            return ("reply", i, rid, self.payload_for(rid)[0])
        if k == "timer":
            return ("timer", im.armed()[0])
        if k == "bootreply":
            a = c[1]
            at = im.boots[a]
            rid = self.bootwritten.get(a)
            if rid is None:
                return None
            if rnd.random() < 0.88:
                pl, _bs = self.payload_for(rid)
                return ("bootreply", a, rid, pl)
            self.h("boot_unknown_id")
            return ("bootreply", a, rid + 1000, [1, 2, 3])
        if k == "tick":
            return ("tick", rnd.choice([0.001, 0.01, 0.1, 0.5, 1.0, 2.5]))
        if k == "disabled":
            self.h("disabled_event")
            r = rnd.random()
            n = len(im.bcs) + rnd.randint(0, 1)
            if r < 0.2:
                return ("ok", rnd.randrange(n + 1))
            if r < 0.4:
                return ("lost", rnd.randrange(n + 1))
            if r < 0.55:
                return ("timer", im.clock._ids + rnd.randint(50, 60))      # a name no DelayedCall has (yet)
            if r < 0.7:
                return ("bootok", rnd.randrange(len(im.boots) + 1))
            if r < 0.85:
                return ("bootlost", rnd.randrange(len(im.boots) + 1))
            return ("cancelreq", len(im.directs) + rnd.randint(0, 2))
        return None

    def run(self):
        guard = 0
        nmodel = 0
        while nmodel < self.length and guard < self.length * 20:
            guard += 1
            if self.close_at is not None and nmodel == self.close_at and not self.im.closed:
                ev = ("close",)
            else:
                ev = self.make_event()
            if ev is None:
                continue
            if ev[0] == "timer" and not self.im.enabled(ev) and ev[1] < self.im.clock._ids:
                continue      # an existing DelayedCall that is not the earliest: the model would fire it, the reactor cannot
            recs = self.im.apply(ev)
            self.events.append(ev)
            if ev[0] != "tick":
                nmodel += len(recs)
            for rec in recs:
                self._observe(rec)
        fix_timer_counts(self.im.records)
        recs = [r for r in self.im.records if r["ev"][0] != "tick"]
        return [r["ev"] for r in recs], recs

    def _observe(self, rec):
        ev = rec["ev"]
        if ev[0] == "tick":
            return
        self.h("ev_" + ev[0] + ("" if rec["enabled"] else "_disabled"))
        if ev[0] == "update" and not self.im.closed:
            for n, a in ev[1]:
                self.known[n] = a
        if ev[0] in ("reply", "bootreply") and rec["enabled"]:
            pm = parse_meta_payload(list(ev[3])) if self.im.rid_kind.get(ev[2]) == "meta" else None
            if pm and any((o[0] == "opres" and o[2] in (8, 11)) or (o[0] == "sched" and o[2] == 1) for o in rec["outs"]):
                for n, a in pm[0]:
                    self.known[n] = a
        if ev[0] == "reply" and rec["enabled"]:
            w = self.written.get(ev[1], [])
            if ev[2] in w:
                w.remove(ev[2])
        if ev[0] == "lost" and rec["enabled"]:
            self.written[ev[1]] = []
        for o in rec["outs"]:
            if o[0] == "connect":
                self.written[o[1]] = []
            elif o[0] == "write":
                self.written.setdefault(o[1], []).append(o[2])
            elif o[0] == "bootwrite":
                self.bootwritten[o[1]] = o[2]
            elif o[0] == "req":
                self.h("req_result_%d" % o[2])
            elif o[0] == "opres":
                self.h("op_result_%d" % o[2])


def random_cfg(rnd, dot=None):
    return {"timeout": rnd.choice([5000, 5000, 1000, 10000, 250, 1, 7]),
            "dot": (rnd.random() < 0.5) if dot is None else dot,
            "mode": rnd.randrange(0, 8),
            "corr0": rnd.choice([0, 0, 0, 7, 2 ** 31 - 3, 2 ** 31 - 2]),
            "cancel": rnd.choice(["plain", "connecting"]),
            "hosts": sorted(rnd.sample(range(1, 9), rnd.choice([1, 2, 2, 3])))}


# ------------------------------------------------------------------ monitors: the theorems restated over the implementation's trace
def monitor(cfg, records, which=("C11", "C20")):
    """Returns [(theorem, message, index)].  Keeps only what an outside observer knows."""
    bad = []
    c11, c20 = "C11" in which, "C20" in which
    armed = {}                # timer name -> ("req", d) | ("other",)
    req_timer = {}            # d -> timer name
    req_res = {}              # d -> code
    req_bc = {}               # d -> broker client it was issued to (learned from the connect/write of its id) or None
    req_rid = []
    op_res = {}
    nops = 0
    closed = False
    closefired = 0
    findings = []
    req_info = {}             # d -> (broker client, correlation id, expects a reply)
    op_kind = {}              # p -> kind
    boot_lose = set()         # bootstrap connections the client asked to close
    conn_w = {}               # (broker client, correlation id) -> requests d in the order they were written on its CURRENT connection
    conn_r = {}               # (broker client, correlation id) -> reply frames with that id received on the current connection

    def B(thm, msg):
        bad.append((thm, msg, idx))

    for idx, rec in enumerate(records):
        ev, outs, en = rec["ev"], rec["outs"], rec["enabled"]
        k = ev[0]
        was_closed = closed
        if not en:
            if outs:
                B("C11_late_reply_inert", "disabled event %r produced %r" % (ev, outs))
            continue
        for o in outs:
            if o[0] == "bootlose":
                boot_lose.add(o[1])
            if o[0] == "reset_timer":
                B("C11_timer_never_rearmed" if c11 else "C20_pending_end", "DelayedCall %d was reset / delayed" % o[1])
            if o[0] == "raised" and o[1] == 99:
                thm = {"lost": "C11_disconnect_on_timeout", "ok": "C11_disconnect_on_timeout", "timer": "C11_bound",
                       "reply": "C11_late_reply_inert", "close": "C20_pending_end"}.get(k, "C11_bound" if c11 else "C20_pending_end")
                if thm[:3] not in which:
                    thm = which[0] + thm[3:]
                B(thm, "the implementation raised out of %r: %s" % (ev, o[2] if len(o) > 2 else "?"))
        # ---- C10 lifted (C11_brokerclients_inv): a lost connection with unanswered requests is re-established,
        #      and every unanswered request is written exactly once on the new connection, resolved ones never
        if k == "lost" and not closed and c11:
            mine = [d for d, (bi, _r, _x) in req_info.items() if bi == ev[1] and d not in req_res]
            if mine and not any(o[0] == "connect" and o[1] == ev[1] for o in outs):
                B("C11_disconnect_on_timeout", "connection of broker client %d lost with requests %r unanswered and no new attempt" % (ev[1], mine))
        if k == "ok" and not closed and c11:
            wr = [o[2] for o in outs if o[0] == "write" and o[1] == ev[1]]
            by_id = {}            # one correlation id may have been issued several times (resend): group the requests by id
            for d, (bi, rid, _x) in req_info.items():
                if bi == ev[1]:
                    by_id.setdefault(rid, []).append(d)
            for rid, ds in sorted(by_id.items()):
                n = wr.count(rid)
                open_ds = [d for d in ds if d not in req_res]
                if open_ds and n != len(open_ds):
                    B("C11_disconnect_on_timeout", "new connection of broker client %d: unanswered request(s) %r (id %d) written %d times" % (ev[1], open_ds, rid, n))
                if not open_ds and n:
                    B("C11_disconnect_on_timeout", "new connection of broker client %d: resolved request(s) %r (id %d) written again" % (ev[1], ds, rid))
        if k == "lost":
            for key in [x for x in conn_w if x[0] == ev[1]]:
                del conn_w[key]
            for key in [x for x in conn_r if x[0] == ev[1]]:
                del conn_r[key]
        res_before = set(req_res)
        scheds = [o for o in outs if o[0] == "sched"]
        cancels = [o[1] for o in outs if o[0] == "cancel_timer"]
        netact = [o for o in outs if o[0] in ("connect", "write", "bootconnect", "bootwrite", "sched")]
        # ---- timers: bookkeeping from the outputs alone
        if k == "timer":
            if ev[1] not in armed:
                B("C11_bound", "DelayedCall %d fired but was never scheduled / already released" % ev[1])
            owner = armed.pop(ev[1], None)
            if owner and owner[0] == "req":
                d = owner[1]
                got = [o for o in outs if o[0] == "req" and o[1] == d]
                if c11 and d not in req_res and (len(got) != 1 or got[0][2] != 5):
                    B("C11_bound", "timer of request %d fired and the request did not fail with RequestTimedOutError: %r" % (d, got))
                if c11 and cfg["dot"] and req_bc_live(rec, req_bc.get(d)) and not any(o[0] == "lose" for o in outs):
                    B("C11_disconnect_on_timeout", "disconnect_on_timeout: no loseConnection when request %d timed out" % d)
                if c11 and not cfg["dot"] and any(o[0] == "lose" for o in outs):
                    B("C11_disconnect_on_timeout", "request %d timed out and the connection was dropped although disconnect_on_timeout is off" % d)
        sync_cancelled = set()
        for o in outs:
            if o[0] == "sched":
                armed[o[1]] = ("other",)
            elif o[0] == "cancel_timer":
                if o[1] not in armed:
                    B("C11_timer_released", "DelayedCall %d cancelled but not armed" % o[1])
                armed.pop(o[1], None)
                sync_cancelled.add(o[1])
        # ---- the bootstrap request is bounded by the same timeout (client.py:1210-1212)
        if k == "bootok" and c11 and any(o[0] == "bootwrite" for o in outs):
            if not any(o[0] == "sched" and o[2] == 2 and o[3] == cfg["timeout"] for o in outs):
                B("C11_bound", "bootstrap request written without a DelayedCall of the client timeout: %r" % (scheds,))
        # ---- API events
        if k in ("send", "resend"):       # resend: same positions for expect / min_timeout; never enabled after close()
            raised = [o for o in outs if o[0] == "raised"]
            if closed:
                if c20 and (raised != [("raised", 4)] or len(outs) != 1):
                    B("C20_new_ops_fail", "request after close(): %r" % outs)
            elif not raised:
                d = len(req_rid)
                req_rid.append(None)
                want = cfg["timeout"] if ev[3] < 0 else max(cfg["timeout"], ev[3])
                mine = [o for o in scheds if o[2] == 2]
                if c11 and (len(mine) != 1 or mine[0][3] != want):
                    B("C11_bound", "request %d: timers armed at issue %r, expected one of %d ms" % (d, mine, want))
                if mine:
                    req_timer[d] = mine[0][1]
                    if mine[0][1] not in sync_cancelled:
                        armed[mine[0][1]] = ("req", d)
                for o in outs:
                    if o[0] in ("connect", "write"):
                        req_bc[d] = o[1]
                if rec.get("bc") is not None:
                    req_bc[d] = rec["bc"]
                    req_info[d] = (rec["bc"], rec.get("rid"), ev[2])
        if k == "op":
            p = nops
            nops += 1
            op_kind[p] = ev[1]
            if closed and c20:
                got = [o for o in outs if o[0] == "opres" and o[1] == p]
                if len(got) != 1 or got[0][2] not in (4, 6) or len(outs) != 1:
                    B("C20_new_ops_fail", "operation after close(): %r" % outs)
        for o in scheds:
            if o[2] == 99:
                B("C11_bound", "a DelayedCall with an unexpected delay was scheduled: %r" % (o,))
        # ---- results
        for o in outs:
            if o[0] == "req":
                d = o[1]
                if d in req_res:
                    B("C11_bound", "request %d resolved twice (%r then %r)" % (d, req_res[d], o[2]))
                req_res[d] = o[2]
                if o[2] == 99:
                    B("C11_bound", "request %d resolved with an unexpected value" % d)
                t = req_timer.get(d)
                if c11 and t in armed:
                    B("C11_timer_released", "request %d resolved (code %d) and its DelayedCall %d is still armed" % (d, o[2], t))
            elif o[0] == "opres":
                if o[1] in op_res:
                    B("C20_pending_end", "operation %d resolved twice" % o[1])
                op_res[o[1]] = o[2]
                if o[2] == 99:
                    B("C20_pending_end", "operation %d resolved with an unexpected value" % o[1])
        # ---- every frame answers the request that was written for it: a request that is the j-th one written with its id on
        #      this connection is never completed by an earlier frame than the j-th with that id (the frames before it are
        #      the answers to the earlier requests - e.g. one that timed out: C11_late_reply_inert "without disturbing any
        #      other request", observable once a correlation id is issued again)
        for o in outs:
            if o[0] == "write":
                cand = [d for d, (bi, rid, _x) in req_info.items() if bi == o[1] and rid == o[2] and d not in res_before]
                if not cand or req_info[max(cand)][2]:           # a request that expects no reply is answered by no frame
                    conn_w.setdefault((o[1], o[2]), []).append(max(cand) if cand else None)
        if k == "reply":
            key = (ev[1], ev[2])
            conn_r[key] = conn_r.get(key, 0) + 1
            for o in outs:
                if o[0] == "req" and o[2] == 1 and c11:
                    w = conn_w.get(key, [])
                    if o[1] not in w:
                        B("C11_late_reply_inert", "request %d completed by a frame with id %d on broker client %d, where it was not written on this connection" % (o[1], ev[2], ev[1]))
                    else:
                        j = len(w) - w[::-1].index(o[1])
                        if conn_r[key] < j:
                            B("C11_late_reply_inert", "request %d is the %d. request written with id %d on this connection and was completed by the %d. frame with that id: "
                                                      "the answer to an earlier request (%r)" % (o[1], j, ev[2], conn_r[key], w[:j - 1]))
        # ---- a reply that matches nothing unanswered changes nothing
        if k == "reply" and c11:
            rid = ev[2]
            if not any(o[0] in ("req", "opres") or (o[0] == "sched" and o[2] == 1) for o in outs) and outs:      # sched kind 1: _load_topic_partitions goes into its retry back-off
                B("C11_late_reply_inert", "reply with id %d completed nothing and produced %r" % (rid, outs))
        # ---- close
        if k == "close" and not was_closed and not any(o[0] == "raised" for o in outs):
            closed = True
            pend_req = [d for d in range(len(req_rid)) if d not in req_res]
            pend_op = [p for p in range(nops) if p not in op_res]
            if c20 and (pend_req or pend_op):
                B("C20_pending_end", "after close() requests %r / operations %r are still unresolved" % (pend_req, pend_op))
            for o in outs:
                if o[0] == "req" and o[2] in (1, 2) and c20:
                    B("C20_pending_fail", "request %d pending at close() succeeded" % o[1])
                if o[0] == "opres" and o[2] in (1, 8) and c20:
                    B("C20_pending_fail", "operation %d pending at close() succeeded" % o[1])
                if o[0] == "opres" and o[2] == 9:
                    if op_kind.get(o[1]) == 1:
                        findings.append(("F-C20-2", idx, "load_metadata_for_topics() pending at close() resolved with None (operation %d)" % o[1]))
                    elif c20:
                        B("C20_pending_fail", "operation %d (kind %r) pending at close() resolved with None" % (o[1], op_kind.get(o[1])))
            # every bootstrap connection still up has been asked to close
            if c20:
                left = [a for a in rec["live_boot"] if a not in boot_lose]
                if left:
                    B("C20_no_connect_no_write_after_close", "close() did not ask bootstrap connection(s) %r to close" % left)
            if c20 and netact:
                B("C20_no_connect_no_write_after_close", "network activity inside close(): %r" % netact)
            if c20 and rec["caches"] != (0, 0, 0, 0):
                B("C20_metadata_cleared", "caches after close(): %r" % (rec["caches"],))
        elif closed and was_closed:
            if c20 and netact:
                B("C20_no_connect_no_write_after_close", "after close(), event %r: %r" % (ev, netact))
            if c20 and rec["caches"] != (0, 0, 0, 0):
                B("C20_metadata_cleared", "caches no longer empty after close(): %r" % (rec["caches"],))
        if k == "close" and was_closed and c20 and outs != [("raised", 8)]:
            pass    # a second close() raising is what the code does (AttributeError); anything else is compared by the model
        for o in outs:
            if o[0] == "closefired":
                closefired += 1
                if c20 and closefired > 1:
                    B("C20_close_fires_last", "the close Deferred fired twice")
                if c20 and rec["live_bc"]:
                    B("C20_close_fires_last", "the close Deferred fired while broker connections %r are still up" % rec["live_bc"])
                if rec["live_boot"]:
                    findings.append(("F-C20-2", idx, "close()'s Deferred fired while bootstrap connection(s) %r are still up" % rec["live_boot"]))
        if k != "close" and c20:
            for o in outs:
                if o[0] == "opres" and o[2] == 9:
                    B("C20_pending_fail", "operation %d resolved with None outside close()" % o[1])
        if closed and c20 and not rec["live_bc"] and not rec["live_boot"] and rec["ntimers"] != 0:
            B("C20_pending_end", "client closed, every connection gone, and %d DelayedCall(s) still armed" % rec["ntimers"])
        if closed and c20 and not rec["live_bc"] and closefired != 1:
            B("C20_close_fires_last", "every broker connection is gone and the close Deferred fired %d times" % closefired)
        # ---- the reactor holds exactly the timers the outputs account for
        if rec["ntimers"] != len(armed):
            B("C11_timer_released", "reactor holds %d DelayedCalls, the trace accounts for %d" % (rec["ntimers"], len(armed)))
    sel = [b for b in bad if b[0][:3] in which]
    return sel, findings


def req_bc_live(rec, i):
    """was broker client i connected during this step? (it still is unless this step reported the loss)"""
    return i is not None and i in rec["live_bc"]


def shrink(cfg, events, failing, budget=300):
    """greedy delta debugging over the driver's event list"""
    events = list(events)
    n = 0
    changed = True
    while changed and n < budget:
        changed = False
        i = len(events) - 1
        while i >= 0 and n < budget:
            cand = events[:i] + events[i + 1:]
            n += 1
            try:
                ok = failing(cand)
            except Exception:
                ok = False
            if ok:
                events, changed = cand, True
            i -= 1
    return events


def jsonable(events):
    return [[list(x) if isinstance(x, (list, tuple)) else x for x in ev] for ev in events]


def unjson(events):
    out = []
    for ev in events:
        ev = list(ev)
        if ev[0] == "update":
            ev[1] = [tuple(b) for b in ev[1]]
        out.append(tuple(ev))
    return out
