# C16 - generation fencing in the consumer group.  Same machinery as C17.py (harness/props/group_lib.py): the REAL
# afkak._group.Coordinator / ConsumerGroup under a recording Clock with a scripted stand-in client and a stub partition
# Consumer, and the extracted Gallina model coq/Model/Group.v, on the same event histories; output traces and per-step
# observation vectors compared; monitors restating the theorems of coq/Props/C16.v on the implementation's own run.
import vlib
from props import group_lib as GL
from props import group_wire_lib as WL
from props.group_lib import (E_CFAIL, E_CSHUT, E_HBREPLY, E_JOIN, E_START, E_STOP, E_SYNC, E_TICK, K_ILLGEN, K_INVGROUP, K_TIMEOUT, K_UNKMEMBER,
                             O_API, O_HB, O_JOIN, O_LEAVE, O_LOOKUP, O_PARTS, O_SHUTC, O_STARTC, O_STARTD, O_STOPC, O_SYNC)

MODEL = "group"
TIED = ["C16_consumers_subset_assignment", "C16_commit_identity", "C16_prepare_before_join", "C16_join_only_when_prepared", "C16_no_consumer_running_at_join", "C16_no_consumer_running_while_joining",
        "C16_evicted_stopped_before_rejoin", "C16_evicted_step", "C16_start_committed", "C16_prepare_shuts_down", "C16_graceful_shutdown_completes",
        "C16_nobody_leaves_silently", "C16_start_registers", "C16_nobody_running_means_all_stopped", "C16_lookup_timeout_keeps_consumers", "C16_single_join", "C16_heartbeat_only_stable", "C16_after_stop_only_leave", "C16_stop_no_consumers"]
EVICTING = (K_ILLGEN, K_INVGROUP, K_UNKMEMBER, K_TIMEOUT)


def monitor(kind, steps):
    bad = []
    facts = {"consumers_checked": 0, "startc_checked": 0, "join_checked": 0, "evictions_checked": 0, "heartbeats_checked": 0, "after_stop_steps": 0}
    started = user_stop = leaving = False
    rn_est = True           # the member needs a (re)join: start, or a Kafka error passed rejoin_after_error since the last successful sync
    cur_asg = None          # assignment of the last successful SyncGroup reply delivered
    shutting = set()        # consumers on which shutdown() was called and that have not stopped
    for i, st in enumerate(steps):
        ev, out, obs = st["ev"], st["out"], st["obs"]
        c = ev[0]
        prev_running = steps[i - 1]["running"] if i else []
        prev_ids = (steps[i - 1]["obs"][8], steps[i - 1]["obs"][9]) if i else (-1, 0)
        prev_table = [x for x in prev_running if x not in shutting]
        if c == E_START and (O_API, 0) in out and not started:
            started = True
        stop_called_before = user_stop
        if c == E_STOP and started:
            user_stop = True
        for o in out:
            if o[0] == O_SHUTC:
                shutting.add(o[1])
        shutting &= set(st["running"])
        gen, mem = obs[8], obs[9]
        # --- C16_commit_identity / C16_after_stop: consumers are created only by a delivered successful SyncGroup reply
        for o in out:
            if o[0] == O_STARTC:
                facts["startc_checked"] += 1
                _, cid, t, p, g, m, committed = o
                if not (c == E_SYNC and (ev[2] == 0 or 10 <= ev[2] < 100) and st["delivered"]):
                    bad.append((i, "C16_commit_identity: consumer %d created by an event that is not a successful SyncGroup reply" % cid))
                elif (t, p) not in ev[3]:
                    bad.append((i, "C16_commit_identity: consumer %d for (t%d,%d) which is not in the assignment %r" % (cid, t, p, ev[3])))
                if (g, m) != (gen, mem) or (g, m) != prev_ids:
                    bad.append((i, "C16_commit_identity: consumer %d commits as generation %d member %d, the member is in generation %d as %d" % (cid, g, m, gen, mem)))
                if committed != 1:
                    bad.append((i, "C16_start_committed: consumer %d not started from the group's committed offset" % cid))
                if stop_called_before or leaving:
                    bad.append((i, "C16_after_stop_only_leave: consumer %d created after stop()" % cid))
        if c == E_SYNC and (ev[2] == 0 or 10 <= ev[2] < 100) and st["delivered"] and any(o[0] == O_STARTC for o in out):
            cur_asg = set(ev[3])
        # --- C16_consumers_subset_assignment: registered consumers carry the current ids and an assigned partition
        for cid, g, m, topic, part in st["consumers"]:
            if cid in shutting:
                continue
            facts["consumers_checked"] += 1
            if (g, m) != (gen, mem):
                bad.append((i, "C16_consumers_subset_assignment: consumer %d of generation %d member %d registered while the member is in generation %d as %d" % (cid, g, m, gen, mem)))
            t = int(topic[1:]) if topic[:1] == "t" else -7
            if cur_asg is None or (t, part) not in cur_asg:
                bad.append((i, "C16_consumers_subset_assignment: consumer %d for (%s,%d) not in the current assignment %r" % (cid, topic, part, sorted(cur_asg or []))))
        # --- C16_prepare_before_join / C16_join_only_when_prepared: no consumer of the previous generation is running when JoinGroup goes out
        for o in out:
            if o[0] == O_JOIN:
                facts["join_checked"] += 1
                if st["running"]:
                    bad.append((i, "C16_prepare_before_join: JoinGroup sent while consumers %r are still running" % (st["running"],)))
                if o[2] != prev_ids[1]:
                    bad.append((i, "C16_join_only_when_prepared: JoinGroup carries member %d, the member id is %d" % (o[2], prev_ids[1])))
        # --- C16_single_join
        if obs[1] > 1 and not (user_stop or leaving):
            bad.append((i, "C16_single_join: %d join-sequence requests in flight at once" % obs[1]))
        # --- C16_evicted_stopped_before_rejoin
        res = ev[2] if c in (E_JOIN, E_SYNC, E_HBREPLY) else None
        k = (res - 100) if (res is not None and res >= 100) else (ev[2] if c == E_CFAIL else None)
        if st["delivered"] and k in EVICTING and (c != E_HBREPLY or st["hb_before"]) and started:
            facts["evictions_checked"] += 1
            stopped = set(o[1] for o in out if o[0] == O_STOPC)
            for cid in prev_table:
                if cid not in stopped:
                    bad.append((i, "C16_evicted_stopped_before_rejoin: %s with %s and consumer %d was not stopped" % (GL.EV_NAMES[c], GL.KIND_NAMES[k], cid)))
            left = [x for x in st["running"] if x not in shutting]
            if left:
                bad.append((i, "C16_evicted_stopped_before_rejoin: consumers %r still registered after the eviction" % (left,)))
        # --- C16_heartbeat_only_stable
        for o in out:
            if o[0] == O_HB:
                facts["heartbeats_checked"] += 1
                if rn_est and not (user_stop or leaving):
                    bad.append((i, "C16_heartbeat_only_stable: heartbeat sent while the member needs a rejoin (error since the last successful sync; back-off window)"))
                if c != E_TICK:
                    bad.append((i, "C16_heartbeat_only_stable: heartbeat sent by %s" % GL.EV_NAMES[c]))
                if (o[2], o[3]) != (gen, mem):
                    bad.append((i, "C16_heartbeat_only_stable: heartbeat for generation %d member %d, the member is in %d as %d" % (o[2], o[3], gen, mem)))
                if obs[1] > 0:
                    bad.append((i, "C16_heartbeat_only_stable: heartbeat sent while a join sequence is in flight"))
                if leaving:
                    bad.append((i, "C16_after_stop_only_leave: heartbeat after LeaveGroup / after the start Deferred fired"))
        # --- C16_after_stop_only_leave
        if stop_called_before or leaving:
            facts["after_stop_steps"] += 1
            for o in out:
                if o[0] in (O_LOOKUP, O_JOIN, O_PARTS, O_SYNC) or (o[0] == O_HB and (kind == 0 or leaving)):
                    bad.append((i, "C16_after_stop_only_leave: %s issued after stop()" % GL.OUT_NAMES[o[0]]))
        # bookkeeping of the estimate, mirroring where rejoin_after_error / a successful sync are reached
        kk = None
        if st["delivered"]:
            if c in (E_JOIN, E_SYNC, GL.E_META, GL.E_PARTS) and ev[2] >= 100:
                kk = ev[2] - 100
            elif c == E_HBREPLY and ev[2] >= 100 and st["hb_before"]:
                kk = ev[2] - 100
            elif c == E_CFAIL:
                kk = ev[2]
            elif c == E_SYNC and ev[2] == 2:
                kk = GL.K_OTHERKAFKA
            if kk is not None and kk <= GL.K_OTHERKAFKA:
                rn_est = True
                if kk in (K_UNKMEMBER, K_INVGROUP) and not (user_stop or leaving) and obs[9] != 0:
                    bad.append((i, "C16_evicted_stopped_before_rejoin: %s and the member keeps its member id %d" % (GL.KIND_NAMES[kk], obs[9])))
            if c == E_SYNC and (ev[2] == 0 or 10 <= ev[2] < 100) and any(o[0] == GL.O_SCHED and o[1] == 1 for o in out):
                rn_est = False
        if any(o[0] in (O_LEAVE, O_STARTD) for o in out):
            leaving = True
    return bad, facts


def run(ck):
    vlib.import_repo()
    ck.build([MODEL])
    ck.props()
    GL.check_histories(ck, monitor, TIED)
    GL.run_sync_stream(ck, 4000 if ck.tier == "thorough" else 250)
    # clause "each committing with that generation and member id", on the wire: real Consumer + real KafkaClient request encoders under
    # the real ConsumerGroup; every OffsetCommit frame parsed independently of afkak's codec
    nw = 600 if ck.tier == "thorough" else 45
    WL.run_wire_stream(ck, nw)
    ck.cov["rule"] += (" + wire stream: %d scripted lives of the REAL Consumer + REAL KafkaClient encoders under the group (join, consume, commit, lose the "
                       "generation by rebalance or eviction - every third with a commit in flight -, rejoin, commit), every OffsetCommit frame parsed" % nw)
    if ck.tier == "thorough":
        ck.coqchk(["AV.Props.C16"])
    ck.assumptions += [
        "coq/Model/Group.v is a hand-written transcription of afkak/_group.py:50-538,673-901 (tie = this run's trace + observation correspondence, not a proof)",
        "in the histories the partition Consumer is represented by its contract (stub recording the constructor arguments commit_generation_id / commit_consumer_id and the OFFSET_COMMITTED argument of start(); the constructor may raise); in addition a stream of scripted lives (wire stream) runs the REAL Consumer and the REAL KafkaClient request encoders under the group and checks generation and member id in every OffsetCommit frame (parsed with struct, not with afkak's codec), incl. a commit in flight at eviction",
        "the coordinator (broker side: generation counter, rejection of stale commits) is the environment: every reply and error code it can send is an event; the closed loop uses a 60-line honest coordinator",
        "live_cids in C16_no_consumer_running_* is a function of the model state; that it equals the consumers started and not yet stopped is part of the sampled observation correspondence, not proved",
        "C16_evicted_stopped_before_rejoin is about the function rejoin_after_error; C16_evicted_step covers the four event shapes of delivers_evicting (failed JoinGroup/SyncGroup reply to the awaiting generator, failed heartbeat of the running looper, failing partition consumer); consumers already shutting down are left to finish",
        "within one step, runs of mutually independent calls (request / timer cancellations, consumer stop() calls, coordinator-metadata reset) are compared in canonical order on both sides",
        "Twisted inlineCallbacks / LoopingCall / DeferredList semantics as summarised at the top of Model/Group.v (exercised, not verified)",
        "two observations outside the property, by decision not findings: a second ConsumerGroup.stop() while the first waits for its consumers completes early; start() after a completed stop() is inert",
    ]
    ck.cov["trusted_base"] += ["harness/props/C16.py (monitors)"]


def replay(rp):
    if rp.get("replay_op") == "wire":
        import random
        rnd = random.Random(rp["seed"] + 1616)
        for i in range(rp["scenario_index"] + 1):
            bad, narrative = WL.scenario(rnd, i % 3 == 2)
        for e in narrative:
            print(e)
        print("monitor:", bad or "no failure")
        return 1 if bad else 0
    return GL.replay_history(rp, monitor)
