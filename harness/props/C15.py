# C15 - group assignment: correspondence of afkak/_group.py:572-653 (_ConsumerProtocol) and the
# member-assignment / member-metadata codecs of afkak/kafkacodec.py with coq/Model/Assign.v,
# implementation-side monitors restating the theorems of coq/Props/C15.v, evidence.
#
# Case lines (coq/Model/Assign.v run_case); a str is the list of its code points, bytes the list of bytes:
#   1 <members> <tp>      generate_assignments, then what every member decodes      (6 = same, raw bytes)
#        members = n (lp(id) ns lp(sub)*ns)*n        tp = k (lp(topic) lp(partitions))*k
#   2 v <dict> <ud>       encode_sync_group_member_assignment    dict = k (lp(topic) lp(partitions))*k
#   3 lp(bytes)           decode_sync_group_member_assignment    ud = 0 0 | 1 lp(bytes)
#   4 v n lp(sub-utf8)*n <ud>   encode_join_group_protocol_metadata
#   5 lp(bytes)           decode_join_group_protocol_metadata
import collections
import itertools
import json
import logging
import random
import struct

import vlib
from vlib import lp

MODEL = "assign"
MODULE = "Model.Assign"
THEOREMS_RR = ["C15_assign_defined", "C15_leader_two_calls", "C15_exactly_one", "C15_only_subscribed", "C15_only_listed",
               "C15_balanced", "C15_perm_invariant", "C15_subscription_listing_irrelevant", "C15_decode_encode",
               "C15_encode_defined", "C15_bytes_to_assignment"]
THEOREMS_CODEC = ["C15_codec_roundtrip", "C15_codec_defined", "C15_decode_encode", "C15_decoders_no_fuel_assignment"]
THEOREMS_META = ["C15_metadata_roundtrip", "C15_decoders_no_fuel_metadata", "C15_bytes_to_assignment"]

I32MAX, I32MIN = 2 ** 31 - 1, -2 ** 31


def cps(s):
    return [ord(c) for c in s]


def uncps(l):
    return "".join(chr(c) for c in l)


# ------------------------------------------------------------------ implementation drivers
def exc_code(e):
    """exception -> the model's err_code (coq/Model/Assign.v)"""
    from afkak.common import BufferUnderflowError, ProtocolError
    from afkak._group import _NeedTopicPartitions
    if isinstance(e, AssertionError):
        return [-1]
    if isinstance(e, _NeedTopicPartitions):
        ts = sorted(e.topics)
        out = [-2, len(ts)]
        for t in ts:
            out += lp(cps(t))
        return out
    if isinstance(e, struct.error):
        return [-6]
    if isinstance(e, (UnicodeEncodeError, UnicodeDecodeError)):
        return [-7]
    if isinstance(e, BufferUnderflowError):
        return [-8]
    if isinstance(e, ProtocolError):
        return [-9]
    if isinstance(e, AttributeError):
        return [-10]
    return [-50, sum(type(e).__name__.encode()) % 1000]


def out_dict(d):
    """canonical print of a topic -> partitions mapping: ascending topic (never dict order)"""
    out = [len(d)]
    for t in sorted(d):
        out += lp(cps(t)) + lp(list(d[t]))
    return out


def join_members(members):
    """what the coordinator broker hands the leader: (member_id, metadata bytes written by each member)"""
    from afkak._group import _ConsumerProtocol
    from afkak.common import _JoinGroupResponseMember
    proto = _ConsumerProtocol()
    return [_JoinGroupResponseMember(mid, proto.join_group_protocols(list(subs))[0].protocol_metadata)
            for mid, subs in members]


def impl_generate(members, tp, first_empty=True):
    """The leader branch of Coordinator._join_and_sync (_group.py:474-486) followed by every member's
    decode_assignment (_group.py:497).  Returns (trace, decoded, raw) where decoded is
    [(member_id, {topic: tuple})] in output order (None on exception) and raw the encoded bytes."""
    from afkak._group import _ConsumerProtocol, _NeedTopicPartitions
    proto = _ConsumerProtocol()
    joins = join_members(members)
    try:
        if first_empty:
            try:
                out = proto.generate_assignments(joins, topic_partitions={})
            except _NeedTopicPartitions as e:
                asked = set(e.topics)
                # the coordinator now loads the partitions of e.topics; here the case's map is the answer
                out = proto.generate_assignments(joins, topic_partitions={t: list(ps) for t, ps in tp.items()})
                wanted = set()
                for _m, subs in dict(members).items():
                    wanted.update(subs)
                if asked != wanted:
                    return [-51], None, None   # the first call must ask for exactly the subscribed topics
        else:
            out = proto.generate_assignments(joins, topic_partitions={t: list(ps) for t, ps in tp.items()})
    except Exception as e:  # noqa: BLE001 - every exception is an observable outcome
        return exc_code(e), None, None
    trace, decoded, raw = [0, len(out)], [], []
    for o in out:
        trace += lp(cps(o.member_id))
        raw.append((o.member_id, bytes(o.member_metadata)))
        try:
            d = proto.decode_assignment(o.member_metadata)
            decoded.append((o.member_id, {t: tuple(ps) for t, ps in d.items()}))
            trace += [0] + out_dict(d)
        except Exception as e:  # noqa: BLE001
            decoded.append((o.member_id, None))
            trace += exc_code(e)
    return trace, decoded, raw


def gen_case_line(op, members, tp):
    c = [op, len(members)]
    for mid, subs in members:
        c += lp(cps(mid)) + [len(subs)]
        for s in subs:
            c += lp(cps(s))
    c.append(len(tp))
    for t, ps in tp.items():
        c += lp(cps(t)) + lp(ps)
    return c


def ud_line(ud):
    return [0, 0] if ud is None else [1] + lp(list(ud))


def impl_encode(version, d, ud):
    from afkak.kafkacodec import KafkaCodec
    try:
        b = KafkaCodec.encode_sync_group_member_assignment(version, collections.OrderedDict(d), ud)
        return [0] + list(b), bytes(b)
    except Exception as e:  # noqa: BLE001
        return exc_code(e), None


def impl_decode(data):
    from afkak.kafkacodec import KafkaCodec
    try:
        r = KafkaCodec.decode_sync_group_member_assignment(bytes(data))
        return [0, r.version] + out_dict(r.assignments) + ud_line(r.user_data), r
    except Exception as e:  # noqa: BLE001
        return exc_code(e), None


def impl_meta_encode(version, subs, ud):
    from afkak.kafkacodec import KafkaCodec
    try:
        b = KafkaCodec.encode_join_group_protocol_metadata(version, list(subs), ud)
        return [0] + list(b), bytes(b)
    except Exception as e:  # noqa: BLE001
        return exc_code(e), None


def impl_meta_decode(data):
    """returns (trace, outside) - outside=True when CPython's UTF-8 decoder refused a name (not modelled)"""
    from afkak.kafkacodec import KafkaCodec
    try:
        r = KafkaCodec.decode_join_group_protocol_metadata(bytes(data))
    except UnicodeDecodeError:
        return [-7], True
    except Exception as e:  # noqa: BLE001
        return exc_code(e), False
    out = [0, r.version, len(r.subscriptions)]
    for s in r.subscriptions:
        out += lp(list(s.encode("utf-8", "surrogatepass")))
    return out + ud_line(r.user_data), False


# ------------------------------------------------------------------ monitors (the theorems, over impl output)
def effective(members):
    """the member set as generate_assignments sees it: a repeated id keeps its last metadata"""
    return dict(members)


def monitor_assignment(members, tp, decoded):
    """C15_exactly_one / C15_only_subscribed / C15_only_listed / C15_balanced on what the members decoded."""
    eff = effective(members)
    if [m for m, _ in decoded] != [m for m, _ in members]:
        return "output does not list the members in the order received"
    per = {}
    for m, d in decoded:
        if d is None:
            return "member %r cannot decode its assignment" % (m,)
        if m in per and per[m] != d:
            return "member %r listed twice receives two different assignments" % (m,)
        per[m] = d
    subscribed = set()
    for subs in eff.values():
        subscribed.update(subs)
    want = collections.Counter((t, p) for t in subscribed for p in tp[t])
    got = collections.Counter((t, p) for m, d in per.items() for t, ps in d.items() for p in ps)
    if got != want:
        extra, missing = got - want, want - got
        return "exactly-one: assigned-but-not-due %r, due-but-not-assigned %r" % (sorted(extra.items())[:4], sorted(missing.items())[:4])
    for m, d in per.items():
        for t, ps in d.items():
            if t not in eff[m]:
                return "only-subscribed: member %r received topic %r it does not subscribe" % (m, t)
            if not ps:
                return "member %r received an empty partition list for %r" % (m, t)
    if len({frozenset(s) for s in eff.values()}) == 1:
        sizes = [sum(len(ps) for ps in per[m].values()) for m in eff]
        if max(sizes) - min(sizes) > 1:
            return "balanced: identical subscriptions but sizes %r" % (sorted(sizes),)
    return None


def monitor_wire(raw, decoded):
    """C15_decode_encode on the leader's own bytes: version 0, no user data, decode/encode are inverse."""
    from afkak.kafkacodec import KafkaCodec
    for (m, b), (_m2, d) in zip(raw, decoded):
        try:
            r = KafkaCodec.decode_sync_group_member_assignment(b)
        except Exception as e:  # noqa: BLE001
            return "member %r: leader's bytes do not decode: %r" % (m, e)
        if r.version != 0 or {t: tuple(ps) for t, ps in r.assignments.items()} != d:
            return "member %r: decode_assignment disagrees with the codec" % (m,)
        again = KafkaCodec.encode_sync_group_member_assignment(r.version, r.assignments, r.user_data)
        if bytes(again) != b:
            return "member %r: encode(decode(bytes)) != bytes" % (m,)
    return None


def shuffled_input(members, tp, rnd):
    ms = []
    for m, subs in members:
        subs = list(subs)
        rnd.shuffle(subs)                                   # C15_subscription_listing_irrelevant: order / repetition
        if subs and rnd.random() < 0.3:                     # of the names inside a subscription list
            subs.insert(rnd.randrange(len(subs) + 1), rnd.choice(subs))
        ms.append((m, subs))
    rnd.shuffle(ms)
    items = list(tp.items())
    rnd.shuffle(items)
    tp2 = collections.OrderedDict()
    for t, ps in items:
        ps = list(ps)
        rnd.shuffle(ps)
        tp2[t] = ps
    return ms, tp2


def monitor_perm(members, tp, decoded, rnd):
    """C15_perm_invariant + C15_subscription_listing_irrelevant: another listing order of the same member set /
    partitions / names inside each subscription list, same shares."""
    if len({m for m, _ in members}) != len(members):
        return None   # a repeated id is outside the statement (the later metadata wins)
    ms, tp2 = shuffled_input(members, tp, rnd)
    _t, dec2, _r = impl_generate(ms, tp2, first_empty=False)
    if dec2 is None:
        return "perm-invariant: listing %r raises where %r does not" % ([m for m, _ in ms], [m for m, _ in members])
    if dict(dec2) != dict(decoded):
        return "perm-invariant: listing order %r / partition order %r changes the shares" % ([m for m, _ in ms], dict(tp2))
    return None


def check_case(members, tp, rnd):
    """all monitors for one input; returns (trace, failure-or-None)"""
    trace, decoded, raw = impl_generate(members, tp)
    if trace == [-51]:
        return trace, "first generate_assignments({}) did not ask for exactly the subscribed topics"
    if decoded is None:
        # exceptions: the assert / need-partitions outcomes must be the ones C15_assign_defined allows
        eff = effective(members)
        subscribed = set()
        for subs in eff.values():
            subscribed.update(subs)
        if trace == [-1] and subscribed:
            return trace, "AssertionError although topics %r are subscribed" % (sorted(subscribed),)
        if trace[0] == -2 and all(t in tp for t in subscribed):
            return trace, "_NeedTopicPartitions although every subscribed topic has an entry"
        if trace[0] in (-6, -7) and input_ok(members, tp):
            return trace, "encoder raised on in-range names and ids"
        if trace[0] not in (-1, -2, -6, -7):
            return trace, "unexpected exception (code %r)" % (trace,)
        return trace, None
    bad = monitor_assignment(members, tp, decoded) or monitor_wire(raw, decoded) or monitor_perm(members, tp, decoded, rnd)
    return trace, bad


def input_ok(members, tp):
    subscribed = set()
    for subs in effective(members).values():
        subscribed.update(subs)
    for t in subscribed:
        if any(ord(c) > 127 for c in t) or len(t) > 32767:
            return False
        if any(not (I32MIN <= p <= I32MAX) for p in tp.get(t, [])):
            return False
    return True


# ------------------------------------------------------------------ generators
ID_POOLS = [
    ["m1", "m2", "m10", "m3", "m20", "m100"],                       # "m10" < "m2": lexicographic, not numeric
    ["a", "ab", "abc", "", "b", "B", "aB"],                         # prefixes, empty id, case
    ["consumer-0-b7c1", "consumer-1-a9f2", "consumer-10-0000", "consumer-2-ffff"],
    ["é", "e", "ü", "z", "￿", "\U00010000", "\U0001f600", "퟿"],   # code point order != UTF-16 order
    ["afkak-%04x" % i for i in range(0, 4000, 137)],
]
TOPIC_POOLS = [
    ["t", "t1", "t10", "t2", "u", "T"],
    ["orders", "orders.dlq", "orders-v2", "payments", "p", ""],
    ["a.b", "a-b", "a_b", "a", "ab"],
]


def gen_parts(rnd):
    r = rnd.random()
    if r < 0.10:
        return []
    n = rnd.choice([1, 1, 2, 3, 4, 5, 6, 7, 8, 12, 16]) if r < 0.85 else rnd.randint(1, 60)
    style = rnd.random()
    if style < 0.45:
        ps = list(range(n))
    elif style < 0.75:
        ps = sorted(rnd.sample(range(0, 500), n))
    elif style < 0.85:
        ps = rnd.sample(range(0, 500), n)                             # unsorted
    elif style < 0.90:
        ps = [rnd.choice([0, 1, I32MAX, I32MAX - 1, I32MIN, -1, 65536, 255, 256]) for _ in range(n)]   # extremes, repeats
    elif style < 0.94:
        ps = [rnd.randint(0, 5) for _ in range(n)]                   # repeated ids
    elif style < 0.96:
        ps = list(range(n)) + [rnd.choice([I32MAX + 1, I32MIN - 1, 2 ** 40])]   # struct.error at the leader
    else:
        ps = list(range(3, 3 + n))
    if rnd.random() < 0.3:
        rnd.shuffle(ps)
    return ps


def gen_input(rnd, big=False):
    ids = list(rnd.choice(ID_POOLS))
    topics = list(rnd.choice(TOPIC_POOLS))
    if rnd.random() < 0.05:
        topics.append(rnd.choice(["café", "ü", "t\U0001f600"]))      # not ASCII: the encoder must refuse
    rnd.shuffle(ids)
    rnd.shuffle(topics)
    nm = (0 if rnd.random() < 0.02 else rnd.choice([1, 1, 2, 2, 2, 3, 3, 3, 4, 4, 5, 6])) if not big else rnd.randint(5, 25)
    nm = min(nm, len(ids))
    nt = rnd.randint(1, min(len(topics), 4 if not big else 6))
    ids, topics = ids[:nm], topics[:nt]
    mode = rnd.random()
    members = []
    if mode < 0.30:                                                    # identical subscriptions
        k = rnd.randint(1, nt)
        base = topics[:k]
        for m in ids:
            s = list(base)
            rnd.shuffle(s)
            if rnd.random() < 0.2:
                s.append(rnd.choice(base))                             # listed twice
            members.append((m, s))
    elif mode < 0.55:                                                  # overlapping
        for m in ids:
            members.append((m, [t for t in topics if rnd.random() < 0.6]))
    elif mode < 0.70:                                                  # disjoint
        for i, m in enumerate(ids):
            members.append((m, [t for j, t in enumerate(topics) if j % max(1, len(ids)) == i]))
    elif mode < 0.85:                                                  # someone subscribed to nothing else / nothing
        for i, m in enumerate(ids):
            members.append((m, [] if i == 0 else [rnd.choice(topics)] if i == 1 else [t for t in topics if rnd.random() < 0.7]))
    else:                                                              # one topic only one member wants
        for i, m in enumerate(ids):
            members.append((m, topics[:1] + (topics[1:] if i == len(ids) - 1 else [])))
    if members and rnd.random() < 0.04:                                # a repeated id (outside the property, inside the model)
        m, _s = rnd.choice(members)
        members.insert(rnd.randrange(len(members) + 1), (m, [t for t in topics if rnd.random() < 0.5]))
    tp = collections.OrderedDict()
    pool = list(topics)
    extra = [t for t in rnd.choice(TOPIC_POOLS) if t not in topics][:rnd.choice([0, 0, 1, 2])]
    for t in pool + extra:                                             # extra = topics nobody subscribes
        tp[t] = gen_parts(rnd)
        if big and tp[t] and rnd.random() < 0.5:
            tp[t] = list(range(rnd.randint(20, 300)))
    if pool and rnd.random() < 0.06:
        del tp[rnd.choice(pool)]                                       # possibly a subscribed topic without entry
    items = list(tp.items())
    rnd.shuffle(items)
    return members, collections.OrderedDict(items)


COMBINING = [0x300, 0x301, 0x308, 0x327, 0x20D7, 0x1AB0]


def rand_name(rnd, prefix_pool, ascii_only=False, maxlen=12):
    """a random name: common prefix + random code points (ASCII punctuation incl. ':', digits, Latin-1, combining
    marks, CJK, astral); never a surrogate (ids travel as UTF-8 in the end-to-end rounds)"""
    r = rnd.random()
    pre = rnd.choice(prefix_pool) if r < 0.6 else ""
    n = rnd.choice([0, 1, 1, 2, 3, 5, 8, maxlen])
    out = []
    for _ in range(n):
        k = rnd.random()
        if ascii_only or k < 0.45:
            out.append(rnd.choice("abcXYZ019:._-~ /"))
        elif k < 0.60:
            out.append(chr(rnd.choice(COMBINING)))
        elif k < 0.75:
            out.append(chr(rnd.randint(0xA1, 0x24F)))
        elif k < 0.90:
            out.append(chr(rnd.choice([0x4E2D, 0x6587, 0xFFFD, 0xFFFF, 0xE000, 0xD7FF])))
        else:
            out.append(chr(rnd.choice([0x10000, 0x1F600, 0x10FFFF, 0x2F800])))
    return pre + "".join(out)


def gen_input_names(rnd, crowd=False):
    """audit 4.3: names outside the fixed pools - random code points incl. combining marks, common prefixes, ids
    containing ':' / made of digits only (numeric order != code-point order), more than 32 members, topic names
    longer than 50 characters"""
    style = rnd.random()
    n = rnd.randint(33, 70) if crowd else rnd.choice([1, 2, 3, 4, 5, 6, 8, 12])
    ids = set()
    guard = 0
    while len(ids) < n and guard < 50 * n:
        guard += 1
        if style < 0.25:
            ids.add(str(rnd.choice([rnd.randint(0, 12), rnd.randint(0, 120), rnd.randint(0, 10 ** 6), 10 ** rnd.randint(0, 9)])))   # digits only
        elif style < 0.45:
            ids.add("%s:%s" % (rnd.choice(["h", "host", "10.0.0.1", ""]), rnd.choice(["", str(rnd.randint(0, 99)), "a", ":"])) + rnd.choice(["", "-" + str(rnd.randint(0, 30))]))
        else:
            ids.add(rand_name(rnd, ["consumer-", "consumer-1", "afkak-", "é", "é", "m"]))
    ids = list(ids)
    rnd.shuffle(ids)
    topics = set()
    nt = rnd.randint(1, 6)
    guard = 0
    while len(topics) < nt and guard < 200:
        guard += 1
        t = rand_name(rnd, ["t", "topic.", "topic-", "a" * 60, "x" * rnd.choice([51, 120, 249])], ascii_only=rnd.random() < 0.97)
        topics.add(t)
    topics = list(topics)
    mode = rnd.random()
    members = []
    for i, m in enumerate(ids):
        if mode < 0.4:
            subs = list(topics)
            rnd.shuffle(subs)
        elif mode < 0.8:
            subs = [t for t in topics if rnd.random() < 0.6] or [rnd.choice(topics)]
        else:
            subs = [topics[i % len(topics)]]
        members.append((m, subs))
    tp = collections.OrderedDict()
    for t in topics:
        tp[t] = gen_parts(rnd) if not crowd else list(range(rnd.choice([1, 7, 32, 33, 64, 100, 131])))
    return members, tp


def classify(ck, members, tp, trace):
    eff = effective(members)
    ck.hist("members=%s" % (len(members) if len(members) < 7 else "7+"))
    if len(eff) != len(members):
        ck.hist("repeated_member_id")
    subs = [frozenset(s) for s in eff.values()]
    if subs and len(set(subs)) == 1:
        ck.hist("subscriptions_identical")
    elif subs and all(not (a & b) for a, b in itertools.combinations(subs, 2)):
        ck.hist("subscriptions_disjoint")
    elif subs:
        ck.hist("subscriptions_overlapping")
    if any(not s for s in subs):
        ck.hist("member_subscribed_to_nothing")
    wanted = set().union(*subs) if subs else set()
    if any(t not in wanted for t in tp):
        ck.hist("topic_nobody_subscribes")
    if any(t in tp and not tp[t] for t in wanted):
        ck.hist("subscribed_topic_with_0_partitions")
    if any(tp[t] != list(range(len(tp[t]))) for t in wanted if t in tp):
        ck.hist("non_contiguous_or_unsorted_partitions")
    if any(ord(c) > 127 for m in eff for c in m):
        ck.hist("non_ascii_member_id")
    ck.hist({0: "outcome_assigned", -1: "outcome_assert_no_topics", -2: "outcome_need_topic_partitions",
             -6: "outcome_struct_error", -7: "outcome_unicode_error"}.get(trace[0], "outcome_other"))


def gen_dict(rnd):
    names = list(rnd.choice(TOPIC_POOLS))
    rnd.shuffle(names)
    d = []
    for t in names[:rnd.randint(0, len(names))]:
        d.append((t, gen_parts(rnd)))
    r = rnd.random()
    if r < 0.04:
        d.append(("café", [0]))
    elif r < 0.07:
        d.append(("x" * rnd.choice([300, 1000]), [1, 2]))
    return d


def gen_ud(rnd):
    r = rnd.random()
    if r < 0.25:
        return None
    if r < 0.6:
        return b""
    return bytes(rnd.randint(0, 255) for _ in range(rnd.choice([1, 2, 3, 7, 40])))


def gen_version(rnd):
    r = rnd.random()
    if r < 0.75:
        return 0
    if r < 0.92:
        return rnd.choice([1, -1, 2, 255, 256, 32767, -32768])
    return rnd.choice([32768, -32769, 70000])


def malform(rnd, b):
    """byte strings around a valid encoding: prefixes, flipped/inserted/deleted bytes, patched length fields"""
    b = bytearray(b)
    r = rnd.random()
    if r < 0.35:
        return bytes(b[:rnd.randint(0, len(b))])
    if r < 0.55 and b:
        i = rnd.randrange(len(b))
        b[i] = rnd.choice([0, 1, 0x7F, 0x80, 0xFF, b[i] ^ (1 << rnd.randrange(8))])
        return bytes(b)
    if r < 0.65 and b:
        del b[rnd.randrange(len(b))]
        return bytes(b)
    if r < 0.75:
        b.insert(rnd.randint(0, len(b)), rnd.randint(0, 255))
        return bytes(b)
    if r < 0.9 and len(b) >= 6:
        # patch a 2- or 4-byte big-endian field with an interesting value
        w = rnd.choice([2, 4])
        i = rnd.randrange(0, len(b) - w + 1)
        v = rnd.choice([-1, -2, 0, 1, 2, 5, 127, 128, 32767, -32768] + ([I32MAX, I32MIN, 65536] if w == 4 else []))
        b[i:i + w] = struct.pack(">h" if w == 2 else ">i", v)
        return bytes(b)
    return bytes(b) + bytes(rnd.randint(0, 255) for _ in range(rnd.randint(1, 6)))


def gen_subs(rnd):
    names = list(rnd.choice(TOPIC_POOLS)) + ["café", "üß", "t\U0001f600", "￿"]
    rnd.shuffle(names)
    return names[:rnd.randint(0, 6)]


# ------------------------------------------------------------------ shrinking
def shrink_input(members, tp, fails):
    """greedy minimisation of (members, tp) while [fails] holds"""
    members, tp = [(m, list(s)) for m, s in members], collections.OrderedDict((t, list(p)) for t, p in tp.items())
    changed = True
    budget = 400
    while changed and budget > 0:
        changed = False
        cands = []
        for i in range(len(members)):
            cands.append((members[:i] + members[i + 1:], tp))
        for t in list(tp):
            tp2 = collections.OrderedDict((k, v) for k, v in tp.items() if k != t)
            ms2 = [(m, [x for x in s if x != t]) for m, s in members]
            cands.append((ms2, tp2))
        for i, (m, s) in enumerate(members):
            for j in range(len(s)):
                cands.append((members[:i] + [(m, s[:j] + s[j + 1:])] + members[i + 1:], tp))
        for t, ps in tp.items():
            for j in range(len(ps)):
                tp2 = collections.OrderedDict(tp)
                tp2[t] = ps[:j] + ps[j + 1:]
                cands.append((members, tp2))
        for ms2, tp2 in cands:
            budget -= 1
            if budget <= 0:
                break
            try:
                if fails(ms2, tp2):
                    members, tp, changed = ms2, tp2, True
                    break
            except Exception:  # noqa: BLE001
                pass
    return members, tp


def describe_input(members, tp):
    return {"members": [[m, list(s)] for m, s in members], "topic_partitions": [[t, list(ps)] for t, ps in tp.items()]}


def search_around(members, tp, rnd, n=300):
    """a correspondence difference without monitor failure: look for a failing input near the case"""
    for _ in range(n):
        ms, tp2 = shuffled_input(members, tp, rnd)
        r = rnd.random()
        if r < 0.3 and ms:
            ms = ms[:rnd.randint(1, len(ms))]
        elif r < 0.6:
            for t in list(tp2):
                if rnd.random() < 0.5:
                    tp2[t] = tp2[t][:rnd.randint(0, len(tp2[t]))]
        elif r < 0.8 and ms:
            i = rnd.randrange(len(ms))
            ms[i] = (ms[i][0], [t for t in tp2 if rnd.random() < 0.5])
        try:
            _trace, bad = check_case(ms, tp2, rnd)
        except Exception:  # noqa: BLE001
            continue
        if bad:
            return ms, tp2, bad
    return None


def observe(observations, where, what, replay):
    """coverage.observations: behaviour outside the property's quantifier (a broker that omits a requested topic),
    recorded with the first input that showed it; never a verdict"""
    key = "%s: %s" % (where, "snapshot without a requested topic" if "no entry for requested topic" in what else what.split(";")[0][:80])
    o = observations.setdefault(key, {"id": "F-C15-1 (candidate; coordinator: not a C15 finding, consequence is known F-C17-2)",
                                      "where": "afkak/client.py:436 (topics rebound to the response's dict), _group.py:496-501",
                                      "what": what, "replay": replay, "seen": 0})
    o["seen"] += 1


def shrink_lookup(requested, truth, script):
    """fewer topics / shorter script while an honest-broker lookup still breaks the contract"""
    def fails(req, scr):
        if not req or not scr:
            return False
        log, result, client = lookup_round(req, truth, scr)
        return bool(monitor_snapshot(req, truth, log, result, client)) and not omitted_in(log, req)
    changed = True
    while changed:
        changed = False
        for i in range(len(requested)):
            r2 = requested[:i] + requested[i + 1:]
            if fails(r2, script):
                requested, changed = r2, True
                break
        for i in range(len(script) - 1):
            s2 = script[:i] + script[i + 1:]
            if fails(requested, s2):
                script, changed = s2, True
                break
    return requested, collections.OrderedDict((t, ps) for t, ps in truth.items() if t in requested), script


# ------------------------------------------------------------------ the check
def run(ck):
    vlib.import_repo()
    ck.build([MODEL])
    ck.props()
    # Two ties connect the theorems to _round_robin_assignment; the property is shown when EITHER is intact (DESIGN 10.2b):
    #  (A) translator tie: the method is translated from THIS run's source (harness/py2assign.py) and proved equal to the
    #      hand model Assign.round_robin in coq/Run/out/gen/<id>/ (harness/assign_tie.py, Proofs/AssignGenTac.v);
    #  (B) the hand model + the differential correspondence below without a single difference.
    # (A) "unavailable: ..." (translation refused) or "differs: ..." (its proof fails): stream 1 is multiplied by 4 and a
    # clean run passes with the reduced obligation count; any difference in (B) leads to a concrete input as before.
    import assign_tie
    tie_state, tie_reason = assign_tie.translator_tie(ck)
    ck.cov["translator_tie"] = "intact" if tie_state == "intact" else "%s: %s" % (tie_state, tie_reason)
    rnd = random.Random(ck.seed)
    scale = 1 if ck.tier == "quick" else 30
    ascale = scale if tie_state == "intact" else 4 * scale

    # ---------------- 1. generate_assignments -> decode_assignment
    inputs = list(CORPUS)
    inputs += [gen_input(rnd) for _ in range(1200 * ascale)]
    inputs += [gen_input(rnd, big=True) for _ in range(25 * scale)]
    rnd_names = random.Random(ck.seed * 7919 + 43)          # own generator: the older streams keep their cases
    named = [gen_input_names(rnd_names) for _ in range(150 * scale)] + [gen_input_names(rnd_names, crowd=True) for _ in range(8 * scale)]
    ck.hist("random_name_inputs", len(named))
    ck.hist("inputs_with_more_than_32_members", sum(1 for ms, _tp in named if len(ms) > 32))
    ck.hist("inputs_with_digit_only_or_colon_ids", sum(1 for ms, _tp in named if any(m.isdigit() or ":" in m for m, _ in ms)))
    ck.hist("inputs_with_combining_marks_in_ids", sum(1 for ms, _tp in named if any(ord(c) in COMBINING for m, _ in ms for c in m)))
    ck.hist("inputs_with_topic_names_over_50_chars", sum(1 for _ms, tp in named if any(len(t) > 50 for t in tp)))
    inputs += named
    if ck.tier != "quick":
        inputs += list(small_scope())
        ck.hist("exhaustive_small_scope_cases", sum(1 for _ in small_scope()))
    cases, impl, meta = [], [], []
    nviol = 0
    for members, tp in inputs:
        trace, bad = check_case(members, tp, rnd)
        classify(ck, members, tp, trace)
        cases.append(gen_case_line(1, members, tp))
        impl.append(trace)
        meta.append((members, tp))
        if bad and nviol < 5:
            nviol += 1
            ms, tp2 = shrink_input(members, tp, lambda a, b: check_case(a, b, random.Random(1))[1] is not None)
            tr2, bad2 = check_case(ms, tp2, random.Random(1))
            ck.violation(dict(describe_input(ms, tp2), kind="group assignment monitor", what=bad2 or bad,
                              impl_trace=tr2, replay_op="generate"))
        elif bad:
            ck.violation({})
        # the coordinator's first call (topic_partitions={}) as a case of its own
        if rnd.random() < 0.15:
            t0, _d, _r = impl_generate(members, {}, first_empty=False)
            cases.append(gen_case_line(1, members, {}))
            impl.append(t0)
            meta.append((members, {}))
    label = "generate_assignments+decode_assignment vs Model.Assign.generate_assignments/decode_assignment"
    diffs, mo = ck.correspond(MODEL, MODULE, cases, impl, label,
                              nontrivial=lambda c, o: o[0] == 0 and o[1] >= 2 and len(o) > 12,
                              describe=lambda c: {"op": 1, "line": c[:60]})
    if diffs and not ck.violations:
        found = None
        for i in diffs[:5]:
            found = search_around(meta[i][0], meta[i][1], rnd)
            if found:
                break
        if found:
            ms, tp2, bad = found
            ms, tp2 = shrink_input(ms, tp2, lambda a, b: check_case(a, b, random.Random(1))[1] is not None)
            ck.violation(dict(describe_input(ms, tp2), kind="group assignment monitor (found near a correspondence difference)",
                              what=check_case(ms, tp2, random.Random(1))[1] or bad, replay_op="generate"))
        else:
            i = diffs[0]
            ms, tp2 = shrink_input(meta[i][0], meta[i][1], lambda a, b: impl_generate(a, b)[0] != ck.model(MODEL, [gen_case_line(1, a, b)])[0])
            ck.violation(dict(describe_input(ms, tp2), kind="correspondence broken", correspondence="corr:assign:decoded-assignment",
                              theorems_no_longer_tied=THEOREMS_RR, impl=impl_generate(ms, tp2)[0],
                              model=ck.model(MODEL, [gen_case_line(1, ms, tp2)])[0], differing_cases=len(diffs),
                              replay_op="generate"), no_input=True)
    # raw bytes (op 6): informational unless the decoded view differs as well
    sample = [i for i, (ms, tp) in enumerate(meta) if impl[i][0] == 0][:400 * scale]
    if sample:
        mo6 = ck.model(MODEL, [gen_case_line(6, *meta[i]) for i in sample])
        for i, o in zip(sample, mo6):
            _t, _d, raw = impl_generate(*meta[i], first_empty=False)
            mine = [0, len(raw)]
            for m, b in raw:
                mine += lp(cps(m)) + lp(list(b))
            ck.hist("leader_bytes_equal_model" if mine == o else "leader_bytes_differ_from_model_but_decode_alike")

    # ---------------- 2. encode_sync_group_member_assignment (+ round trip monitor)
    cases, impl, meta = [], [], []
    for _ in range(500 * scale):
        v, d, ud = gen_version(rnd), gen_dict(rnd), gen_ud(rnd)
        trace, b = impl_encode(v, d, ud)
        c = [2, v, len(d)]
        for t, ps in d:
            c += lp(cps(t)) + lp(ps)
        cases.append(c + ud_line(ud))
        impl.append(trace)
        meta.append((v, d, ud))
        ck.hist("encode_ok" if b is not None else "encode_raises")
        bad = None
        if b is not None:
            dt, r = impl_decode(b + bytes(rnd.choice([0, 0, 3])))
            if v == 0:
                if r is None or r.version != 0 or list(r.assignments.items()) != [(t, tuple(ps)) for t, ps in d] or r.user_data != ud:
                    bad = "decode(encode(x)) != x"
            elif dt != [-9]:
                bad = "version %d accepted by the decoder" % v
        elif v == 0 and -32768 <= v <= 32767 and all(all(ord(ch) < 128 for ch in t) and len(t) <= 32767 and
                                                       all(I32MIN <= p <= I32MAX for p in ps) for t, ps in d):
            bad = "encoder raised on in-range input"
        if bad:
            ck.violation({"kind": "member-assignment codec monitor", "what": bad, "version": v,
                          "assignments": [[t, ps] for t, ps in d], "user_data": None if ud is None else list(ud),
                          "replay_op": "codec"})
    diffs, mo = ck.correspond(MODEL, MODULE, cases, impl, "encode_sync_group_member_assignment vs Model.Assign.enc_assignment",
                              nontrivial=lambda c, o: o[0] == 0 and len(o) > 12, describe=lambda c: {"op": 2, "line": c[:60]})
    if diffs and not ck.violations:
        v, d, ud = meta[diffs[0]]
        ck.violation({"kind": "correspondence broken", "correspondence": "corr:assign:encoded-assignment-bytes",
                      "theorems_no_longer_tied": THEOREMS_CODEC, "version": v, "assignments": [[t, ps] for t, ps in d],
                      "user_data": None if ud is None else list(ud), "impl": impl[diffs[0]][:80], "model": mo[diffs[0]][:80],
                      "replay_op": "codec"}, no_input=True)

    # ---------------- 3. decode_sync_group_member_assignment on valid, truncated, damaged, random bytes
    datas = [b"", b"\x00\x00\x00\x00\x00\x00", b"\x00\x00\x00\x00\x00\x00\xff\xff\xff\xff", b"\x00\x01\x00\x00\x00\x00\xff\xff\xff\xff",
             b"\x00\x00\x00\x00\x00\x01\xff\xff", b"\x00\x00\x00\x00\x00\x01\xff\xfe", b"\x00\x00\x00\x00\x00\x01\x00\x01t\xff\xff\xff\xff",
             b"\x00\x00\xff\xff\xff\xff\x00\x00\x00\x00zz", b"\x00\x00\x00\x00\x00\x01\x00\x01\x80\x00\x00\x00\x00\x00\x00\x00\x00",
             b"\x00\x00\x00\x00\x00\x00\xff\xff\xff\xfe", b"\x00\x00\x7f\xff\xff\xff\x00\x01t\x7f\xff\xff\xff",
             b"\x00\x00\x00\x00\x00\x02\x00\x01t\x00\x00\x00\x01\x00\x00\x00\x07\x00\x01t\x00\x00\x00\x00\x00\x00\x00\x01x"]
    for _ in range(500 * scale):
        _t, b = impl_encode(0 if rnd.random() < 0.9 else 1, [(t, [p for p in ps if I32MIN <= p <= I32MAX]) for t, ps in gen_dict(rnd) if len(t) < 50 and t.isascii()], gen_ud(rnd))
        r = rnd.random()
        if r < 0.25:
            datas.append(b)
        elif r < 0.9:
            datas.append(malform(rnd, b))
        else:
            datas.append(bytes(rnd.randint(0, 255) for _ in range(rnd.randint(0, 24))))
    if ck.tier != "quick":
        _t, b = impl_encode(0, [("t1", [0, 5]), ("u", [])], b"\x01")
        datas += [b[:i] for i in range(len(b) + 1)]                      # every prefix
    cases = [[3] + lp(list(b)) for b in datas]
    impl = [impl_decode(b)[0] for b in datas]
    for o in impl:
        ck.hist({0: "decode_ok", -6: "decode_struct_error", -7: "decode_unicode_error", -8: "decode_underflow",
                 -9: "decode_protocol_error", -10: "decode_null_topic"}.get(o[0], "decode_other"))
    diffs, mo = ck.correspond(MODEL, MODULE, cases, impl, "decode_sync_group_member_assignment vs Model.Assign.dec_assignment",
                              nontrivial=lambda c, o: len(c) > 12, describe=lambda c: {"op": 3, "line": c[:60]})
    ck.hist("model_out_of_fuel_on_assignment_bytes", sum(1 for o in mo if o == [-3]))     # C15_decoders_no_fuel_assignment: 0
    if diffs and not ck.violations:
        i = diffs[0]
        ck.violation({"kind": "correspondence broken", "correspondence": "corr:assign:decoded-assignment-of-bytes",
                      "theorems_no_longer_tied": THEOREMS_CODEC, "bytes": list(datas[i]), "impl": impl[i][:80], "model": mo[i][:80],
                      "replay_op": "decode"}, no_input=True)

    # ---------------- 4./5. member metadata (subscriptions)
    from afkak.kafkacodec import KafkaCodec
    cases, impl, meta = [], [], []
    metas = []
    for k in range(250 * scale):
        v, subs, ud = gen_version(rnd), gen_subs(rnd), gen_ud(rnd)
        if k == 0:
            subs = ["x" * 32767, "é" * 16384]            # 32767 bytes fits, 32768 bytes does not
        if k == 1:
            subs = ["y" * 32767]
        trace, b = impl_meta_encode(v, subs, ud)
        c = [4, v, len(subs)]
        for s in subs:
            c += lp(list(s.encode("utf-8")))
        cases.append(c + ud_line(ud))
        impl.append(trace)
        meta.append((v, subs, ud))
        if b is not None:
            metas.append(b)
            r = KafkaCodec.decode_join_group_protocol_metadata(b)
            if (r.version, list(r.subscriptions), r.user_data) != (v, subs, ud):
                ck.violation({"kind": "member-metadata codec monitor", "what": "decode(encode(x)) != x", "version": v,
                              "subscriptions": subs, "user_data": None if ud is None else list(ud), "replay_op": "meta"})
    diffs, mo = ck.correspond(MODEL, MODULE, cases, impl, "encode_join_group_protocol_metadata vs Model.Assign.enc_metadata",
                              nontrivial=lambda c, o: o[0] == 0 and len(o) > 12, describe=lambda c: {"op": 4, "line": c[:60]})
    if diffs and not ck.violations:
        v, subs, ud = meta[diffs[0]]
        ck.violation({"kind": "correspondence broken", "correspondence": "corr:assign:encoded-metadata-bytes",
                      "theorems_no_longer_tied": THEOREMS_META, "version": v, "subscriptions": [x[:400] for x in subs],
                      "truncated": any(len(x) > 400 for x in subs), "user_data": None if ud is None else list(ud),
                      "impl": impl[diffs[0]][:80], "model": mo[diffs[0]][:80], "replay_op": "meta"}, no_input=True)
    datas = []
    for b in metas:
        if len(b) > 400:
            continue
        datas.append(b if rnd.random() < 0.3 else malform(rnd, b))
    cases, impl = [], []
    for b in datas:
        o, outside = impl_meta_decode(b)
        if outside:
            ck.hist("metadata_decode_invalid_utf8_not_modelled")
            continue
        cases.append([5] + lp(list(b)))
        impl.append(o)
    diffs, mo = ck.correspond(MODEL, MODULE, cases, impl, "decode_join_group_protocol_metadata vs Model.Assign.dec_metadata",
                              nontrivial=lambda c, o: len(c) > 12, describe=lambda c: {"op": 5, "line": c[:60]})
    ck.hist("model_out_of_fuel_on_metadata_bytes", sum(1 for o in mo if o == [-3]))       # C15_decoders_no_fuel_metadata: 0
    if diffs and not ck.violations:
        i = diffs[0]
        ck.violation({"kind": "correspondence broken", "correspondence": "corr:assign:decoded-metadata-of-bytes",
                      "theorems_no_longer_tied": THEOREMS_META, "bytes": cases[i][2:], "impl": impl[i][:80], "model": mo[i][:80],
                      "replay_op": "meta"}, no_input=True)

    # ---------------- 6. the same through the real Coordinator._join_and_sync of every member
    #   (partition lookup stubbed by its documented contract here; streams 7/8 drive the real one).
    #   Every other round the coordinator elects a member other than the first and lists the members shuffled.
    rnd6 = random.Random(ck.seed * 7919 + 6)
    n_e2e = 0
    pool6 = [x for x in inputs if e2e_eligible(*x)]
    e2e_inputs = pool6[:120 * scale] + [x for x in named if e2e_eligible(*x)][:40 * scale]
    for members, tp in e2e_inputs:
        n_e2e += 1
        li, osd = (0, None) if n_e2e % 2 else (rnd6.randrange(len(members)), rnd6.randrange(1 << 16))
        if li % len(members):
            ck.hist("coordinator_rounds_leader_not_first")
        if osd is not None:
            ck.hist("coordinator_rounds_join_listing_shuffled")
        got, err = e2e_round(members, tp, li, osd)
        want = ck_model_decoded(ck, members, tp)
        if err or got != want:
            def bad6(a, b):
                if not e2e_eligible(a, b):
                    return False
                g, e = e2e_round(a, b, li, osd)
                return bool(e) or g != ck_model_decoded(ck, a, b)
            ms, tp2 = shrink_input(members, tp, bad6)
            got2, err2 = e2e_round(ms, tp2, li, osd)
            ck.violation(dict(describe_input(ms, tp2), kind="Coordinator._join_and_sync round: what the members receive in on_join_complete "
                              "differs from the proved assignment", error=err2, received=repr(got2), model=repr(ck_model_decoded(ck, ms, tp2)),
                              leader_idx=li, order_seed=osd, replay_op="e2e"))
            break
    ck.hist("coordinator_rounds", n_e2e)

    # ---------------- 6b. TWO generations on the same Coordinator objects: between them the topics' partition lists
    #   change (grow / shrink / renumber) and the same member leads again.  What the members receive in the second
    #   generation must be the proved assignment of THIS generation's partition lists (a leader that reuses what it
    #   looked up in an earlier generation leaves new partitions without owner / hands out partitions that are gone).
    rnd6b = random.Random(ck.seed * 7919 + 66)
    n6b = 0
    for members, tp in pool6[:60 * scale]:
        if sum(len(ps) for ps in normal_tp(tp).values()) > 80:
            continue
        n6b += 1
        tp1 = normal_tp(tp)
        tp_second = second_generation_map(rnd6b, members, tp1)
        li = 0 if n6b % 2 else rnd6b.randrange(len(members))
        script = gen_script(rnd6b, sorted(tp1), "echo") if n6b % 3 == 0 else None      # every third round: the real client lookup
        bad, detail = two_generation_verdict(ck, members, tp1, tp_second, li, script)
        if bad:
            def bad6b(a, b):
                if not e2e_eligible(a, b):
                    return False
                b1 = normal_tp(b)
                b2 = collections.OrderedDict((t, list(tp_second.get(t, ps))) for t, ps in b1.items())
                if not e2e_eligible(a, b2):
                    return False
                return two_generation_verdict(ck, a, b1, b2, li, script)[0] is not None
            ms, tpa = shrink_input(members, tp1, bad6b)
            tpa = normal_tp(tpa)
            tpb = collections.OrderedDict((t, list(tp_second.get(t, ps))) for t, ps in tpa.items())
            bad2, detail2 = two_generation_verdict(ck, ms, tpa, tpb, li, script)
            if not bad2:
                ms, tpa, tpb, bad2, detail2 = members, tp1, tp_second, bad, detail
            ck.violation(dict(describe_input(ms, tpa), kind="two generations on one Coordinator: the second generation's assignment is not the proved "
                              "assignment of the partition lists valid in that generation", what=bad2,
                              second_generation_topic_partitions=[[t, list(ps)] for t, ps in tpb.items()], leader_idx=li, script=script,
                              replay_op="two_generations", **detail2))
            break
    ck.hist("coordinator_two_generation_rounds", n6b)

    # ---------------- 7. the REAL KafkaClient._load_topic_partitions against a scripted metadata broker
    #   (audit 3 / 4.1).  Honest brokers (every requested topic echoed; per-topic errors / empty partition lists
    #   before a good answer; unrequested extra topics): the documented snapshot contract is a monitor.
    #   A broker that OMITS a requested topic is outside what a conforming broker does (coordinator's decision:
    #   not a C15 finding): what the code does then is recorded under coverage.observations, never a verdict.
    rnd7 = random.Random(ck.seed * 7919 + 7)
    observations = {}
    topic_sets = []
    for members, tp in pool6:
        ts = sorted({t for _m, subs in members for t in subs})
        if ts:
            topic_sets.append((ts, normal_tp(tp)))
    n7 = 0
    for ts, truth in topic_sets[:220 * scale]:
        kind = ["echo", "retry", "retry", "extra", "omit"][n7 % 5]
        n7 += 1
        requested = list(ts)
        rnd7.shuffle(requested)
        script = gen_script(rnd7, requested, kind)
        log, result, client = lookup_round(requested, truth, script)
        bad = monitor_snapshot(requested, truth, log, result, client)
        ck.hist("lookup_%s" % kind)
        ck.hist("lookup_requests=%s" % (len(log) if len(log) < 4 else "4+"))
        if bad and omitted_in(log, requested):
            observe(observations, "lookup", bad, {"requested": requested, "truth": [[t, ps] for t, ps in truth.items() if t in requested],
                                                  "script": script, "replay_op": "lookup"})
        elif bad:
            requested, truth2, script = shrink_lookup(requested, truth, script)
            log, result, client = lookup_round(requested, truth2, script)
            ck.violation({"kind": "KafkaClient._load_topic_partitions: documented snapshot contract (client.py:412-424) broken against "
                          "a broker that answers every requested topic", "what": monitor_snapshot(requested, truth2, log, result, client) or bad,
                          "requested": requested, "truth": [[t, ps] for t, ps in truth2.items()], "script": script,
                          "requests_sent": [e["asked"] for e in log], "answers": [e["answer"] for e in log],
                          "result": result if isinstance(result, (dict, type(None))) else repr(result), "replay_op": "lookup"})
            break
    ck.hist("lookup_rounds", n7)

    # ---------------- 8. leader path with the real lookup: Coordinator._join_and_sync -> generate_assignments({}) ->
    #   _NeedTopicPartitions -> REAL client._load_topic_partitions (scripted broker) -> generate_assignments(snapshot)
    #   -> SyncGroup -> every member's decode_assignment; compared with the proved model on the broker's truth.
    rnd8 = random.Random(ck.seed * 7919 + 8)
    n8 = 0
    for members, tp in (pool6[120 * scale:] + pool6)[:70 * scale]:
        kind = ["retry", "echo", "retry", "extra", "omit"][n8 % 5]
        n8 += 1
        truth = normal_tp(tp)
        ts = sorted({t for _m, subs in members for t in subs})
        script = gen_script(rnd8, ts, kind)
        li, osd = rnd8.randrange(len(members)), rnd8.choice([None, rnd8.randrange(1 << 16)])
        info = {}
        got, err = e2e_round(members, truth, li, osd, lookup=script, info=info)
        want = ck_model_decoded(ck, members, truth)
        ck.hist("leader_lookup_%s" % kind)
        sn_bad = None
        for sn in info["snapshots"]:
            sn_bad = sn_bad or monitor_snapshot(sn["requested"], truth, info["lookup_log"],
                                                sn["result"] if isinstance(sn["result"], dict) else sn["result"], sn["client"])
        if not info["snapshots"] and want is not None:
            sn_bad = "the leader never finished its partition lookup"
        omitted = omitted_in(info["lookup_log"], ts)
        if omitted and (sn_bad or err or got != want):
            pub = {}
            e2e_round(members, truth, li, osd, lookup=script, info=pub, public=True)
            observe(observations, "leader", "broker omitted %r: %s; leader: %s; leader sent SyncGroup: %s; members with an assignment: %d of %d; "
                    "through join_and_sync(): timers armed afterwards %s, rejoin_after_error calls %s"
                    % (omitted, sn_bad, type(info["leader_error"]).__name__ if info["leader_error"] is not None else err,
                       info["leader_sent_sync"], len(got), len(members), pub.get("timers_armed_afterwards"), pub.get("rejoin_after_error_calls")),
                    dict(describe_input(members, truth), script=script, leader_idx=li, order_seed=osd, replay_op="leader_lookup"))
            wrong = {m: d for m, d in got.items() if want is None or d != want.get(m)}
            if wrong:
                # an assignment WAS handed out and it is not the proved one: that is a verdict even with a dishonest broker
                ck.violation(dict(describe_input(members, truth), kind="leader with an omitted topic handed out an assignment that is not the proved one",
                                  received=repr(got), model=repr(want), script=script, leader_idx=li, order_seed=osd, replay_op="leader_lookup"))
                break
        elif sn_bad or err or got != want:
            def bad8(a, b):
                if not e2e_eligible(a, b):
                    return False
                b = normal_tp(b)
                i2 = {}
                g, e = e2e_round(a, b, li, osd, lookup=script, info=i2)
                return (bool(e) or g != ck_model_decoded(ck, a, b)) and not omitted_in(i2["lookup_log"], sorted({t for _m, s_ in a for t in s_}))
            ms, tp2 = shrink_input(members, truth, bad8)
            i2 = {}
            got2, err2 = e2e_round(ms, tp2, li, osd, lookup=script, info=i2)
            ck.violation(dict(describe_input(ms, tp2), kind="leader path with the real client._load_topic_partitions: the members do not receive "
                              "the proved assignment although the broker answered every requested topic",
                              what=sn_bad or err2 or "assignment differs", error=err2, received=repr(got2), model=repr(ck_model_decoded(ck, ms, tp2)),
                              script=script, requests_sent=[e["asked"] for e in i2["lookup_log"]], answers=[e["answer"] for e in i2["lookup_log"]],
                              snapshots=[[x["requested"], x["result"]] for x in i2["snapshots"]],
                              leader_idx=li, order_seed=osd, replay_op="leader_lookup"))
            break
    ck.hist("leader_rounds_with_real_lookup", n8)
    ck.cov["observations"] = [dict(v, seen=v["seen"]) for v in observations.values()]

    ck.cov["rule"] = (
        "seeded generator (random.Random(VERIF_SEED)): 0-25 members from id pools chosen so that lexicographic code-point order differs from "
        "numeric / UTF-16 / case-insensitive order (m10<m2, U+FFFF<U+10000, empty id), listed shuffled, occasionally an id repeated; "
        "subscriptions identical / overlapping / disjoint / a member subscribed to nothing or to one topic only / names listed twice; "
        "partition maps with 0..300 partitions, contiguous, sparse, unsorted, repeated, int32 extremes, out-of-range ids, topics nobody "
        "subscribes, subscribed topics without entry, non-ASCII topic names; every case first through generate_assignments({}) as the "
        "coordinator does.  Codec: dicts/user data/versions incl. out-of-range, valid encodings cut at a random prefix, with flipped, inserted, "
        "deleted bytes and patched length fields, random bytes.  Random-name stream (own generator): ids and topics of random code points "
        "(combining marks, Latin-1, CJK, astral), common prefixes, ids containing ':' or made of digits only, 33-70 members, topic names "
        "longer than 50 characters.  Stream 6: rounds of real Coordinator objects (every member's _join_and_sync, real JoinGroup/SyncGroup "
        "codecs, scripted coordinator; every other round a non-first leader and a shuffled member listing; partition lookup stubbed by its "
        "contract).  Stream 7: the real KafkaClient._load_topic_partitions against a scripted metadata broker (echo with topics and "
        "partitions out of order; per-topic errors with and without partitions / empty partition lists before a good answer; unrequested "
        "extra topics; and a broker that omits a requested topic - observation only).  Stream 8: stream 6 with the real lookup of stream 7 in "
        "the leader.  thorough adds every member set over 3 ids x subscription subsets of 2 topics "
        "x 0..3 partitions (exhaustive small scope) and every prefix of an encoding.  A case is non-trivial if at least two members received "
        "an answer with at least one partition / the byte string is longer than 10 bytes; distinct = distinct canonical case lines.")
    if tie_state != "intact":
        ck.cov["translator"]["consequence"] = ("tie (B) carried _round_robin_assignment alone: %d violations; stream 1 multiplied by 4"
                                               % max(len(ck.violations), getattr(ck, "nviol", 0)))
    ck.assumptions += [
        "tie (A): _ConsumerProtocol._round_robin_assignment is translated from the source by harness/py2assign.py on every run and proved "
        "equal to Assign.round_robin by the generic tactic Proofs/AssignGenTac.v (trusted: the translator's reading of Python statements as "
        "the combinators of Model/AssignPy.v - sets as duplicate-free lists in the order Assign.all_topics uses, dicts as association lists, "
        "itertools.cycle as (list, index), `while` with a fuel argument and the theorem quantified over every fuel >= number of members); "
        "part 2 of the tie translates generate_assignments' wrapping, decode_assignment and join_group_protocols the same way and proves them "
        "equal to Assign.generate_assignments_raw / decode_assignment / enc_metadata (Props/C15genwrap.v); the KafkaCodec functions they call "
        "appear as the model's codec functions, whose own source ties are C04gen / C05gen; this run: _round_robin_assignment "
        + ck.cov["translator_tie"] + "; wrapping " + ck.cov.get("translator_tie_wrapping", "?"),
        "hand-written Gallina model Model/Assign.v stands for afkak/_group.py:572-653 and kafkacodec.py:1002-1025,1120-1150 with the "
        "_util.py readers/writers they use (tie checked by this run's correspondence only)",
        "a Python str is modelled as the list of its code points; CPython orders str by code point and tuples lexicographically, and "
        "sorted()/list.sort() return the ascending permutation (Model: stdlib merge sort; any correct sort gives the same list because the "
        "orders are proved total and antisymmetric)",
        "set/dict iteration order is not modelled: the code sorts before use (proved irrelevant: C15_perm_invariant); dict key uniqueness "
        "and insertion order are modelled by association lists",
        "generate_assignments receives member metadata as bytes; the model starts from the decoded subscriptions. The byte layout of the "
        "metadata is modelled and proved to round-trip (C15_metadata_roundtrip) with names as UTF-8 byte strings; CPython's UTF-8 "
        "encoder/decoder itself is trusted",
        "struct.pack/unpack big-endian h/i modelled by division and remainder; struct.error on out-of-range values is an explicit Err",
        "string lengths below -1 raise ProtocolError (tree after fix e0719d1); the model follows the fixed readers",
        "python -O (assert removed) is not modelled",
        "the leader's second generate_assignments succeeds iff the snapshot of client._load_topic_partitions has an entry for each subscribed "
        "topic (C15_leader_two_calls, boolean snapshot_covers); that the real client delivers such a snapshot is checked by streams 7/8 only "
        "for brokers that answer every requested topic (conforming Metadata v0 behaviour); for a broker that omits a requested topic the "
        "real client returns a snapshot without it (client.py:436 rebinds `topics` to the response) and the leader raises "
        "_NeedTopicPartitions a second time: no assignment at all (recorded under coverage.observations; consequence = known F-C17-2)",
        "member metadata that is not valid UTF-8 (UnicodeDecodeError inside the leader) is outside the model: such byte strings are "
        "dropped from the decode_join_group_protocol_metadata comparison (histogram metadata_decode_invalid_utf8_not_modelled)",
        "the exception CLASS raised by the two decoders on malformed bytes is part of the compared trace (error kinds are pinned): a change "
        "of exception type there is reported as a broken correspondence without failing input",
        "extraction: ExtrOcamlBasic only; Z/positive/nat stay Coq datatypes; sample re-evaluated in Coq by vm_compute",
    ]
    ck.cov["trusted_base"] += ["correspondence harness harness/props/C15.py + harness/vlib.py",
                               "extracted OCaml runner (ExtrOcamlBasic) cross-checked by vm_compute sample",
                               "Coq standard library Sorting.Mergesort (proved sorted/permutation there)"]
    if ck.tier != "quick":
        ck.coqchk(["AV.Props.C15"])


def ck_model_decoded(ck, members, tp):
    """the model's answer for op 1 as {member: {topic: tuple}} (None for an exception)"""
    o = ck.model(MODEL, [gen_case_line(1, members, tp)])[0]
    if o[0] != 0:
        return None
    i, res = 2, {}
    for _ in range(o[1]):
        n = o[i]
        m = uncps(o[i + 1:i + 1 + n])
        i += 1 + n
        assert o[i] == 0
        k = o[i + 1]
        i += 2
        d = {}
        for _j in range(k):
            n = o[i]
            t = uncps(o[i + 1:i + 1 + n])
            i += 1 + n
            n = o[i]
            d[t] = tuple(o[i + 1:i + 1 + n])
            i += 1 + n
        res[m] = d
    return res


# ------------------------------------------------------------------ corpus and small scope
CORPUS = [
    ([], {}),
    ([("a", [])], {}),
    ([("a", ["t"])], {}),
    ([("a", ["t"])], {"t": []}),
    ([("a", ["t"]), ("b", [])], {"t": [0, 1, 2], "u": [5]}),
    ([("b", ["t"]), ("a", ["t", "u"])], {"t": [2, 0, 1], "u": [5, 5]}),
    ([("a", ["t"]), ("a", ["u"])], {"t": [2, 0, 1], "u": [5, 7]}),
    ([("a", ["té"])], {"té": [0]}),
    ([("a", ["t"])], {"t": [2 ** 31]}),
    ([("\ud800", ["t"]), ("\U00010000", ["t"]), ("￿", ["t"])], {"t": [0, 1, 2]}),
    ([("c", ["t", "u"]), ("a", ["t"]), ("b", ["u", "t", "t"]), ("d", [])], {"t": [7, 0, 3, 5, 9], "u": [1, 0], "v": [4], "w": []}),
    ([("m10", ["t"]), ("m2", ["t"]), ("m1", ["t"])], {"t": list(range(7))}),
    ([("x", ["t", "u"]), ("y", ["u"])], {"t": [0], "u": [0, 1, 2]}),
    ([("a", ["t"]), ("b", ["u"]), ("c", ["v"])], {"t": [0, 1], "u": [], "v": [9]}),
]
CORPUS = [(ms, collections.OrderedDict(tp)) for ms, tp in CORPUS]


def small_scope():
    ids, topics = ["b", "a", "c"], ["u", "t"]
    subsets = [[], ["t"], ["u"], ["u", "t"]]
    for k in range(0, 4):
        for chosen in itertools.permutations(ids, k):
            if list(chosen) != sorted(chosen, reverse=True) and k > 1 and chosen[0] != "b":
                continue        # a few orders per set; the perm monitor shuffles the rest
            for subs in itertools.product(subsets, repeat=k):
                for nt in range(0, 4):
                    for nu in (0, 1, 3):
                        yield list(zip(chosen, [list(s) for s in subs])), collections.OrderedDict(
                            [("t", [5, 1, 3][:nt]), ("u", list(range(nu)))])


# ------------------------------------------------------------------ the same through Coordinator._join_and_sync
def e2e_eligible(members, tp):
    """a round the real group could have: distinct encodable ids, every member subscribed to something
    (Coordinator refuses an empty topic list), every subscribed topic has partitions (the client's
    _load_topic_partitions only returns non-empty lists), names and ids in range"""
    if not members or len({m for m, _ in members}) != len(members):
        return False
    for m, subs in members:
        if not subs or not m or any(0xD800 <= ord(c) <= 0xDFFF for c in m):
            return False
        for t in subs:
            if not t or not t.isascii() or not tp.get(t) or any(not (I32MIN <= p <= I32MAX) for p in tp[t]):
                return False
    return True


def _short(b):
    return struct.pack(">h", len(b)) + b


# ---- scripted metadata broker for the REAL KafkaClient._load_topic_partitions (client.py:396-466) ----
# A script is a list of steps; step k shapes the answer to the k-th metadata request (the last step repeats):
#   {"omit": [topics left out of the answer], "err": {topic: error code (answered without partitions)},
#    "err_parts": {topic: error code (answered WITH its partitions)}, "empty": [topics answered error 0, no partitions],
#    "extra": [[topic nobody asked for, [partitions]]], "seed": n (order of topics and of partitions in the answer)}
# Every other requested topic is answered with error 0 and its partitions from the truth map, listed shuffled.
def md_response(corr, topics):
    """MetadataResponse v0 bytes: one broker, topics = [(name, error, [partition ids])]"""
    out = struct.pack(">ii", corr, 1) + struct.pack(">i", 1) + _short(b"broker1") + struct.pack(">i", 9092)
    out += struct.pack(">i", len(topics))
    for name, err, parts in topics:
        out += struct.pack(">h", err) + _short(name.encode("ascii")) + struct.pack(">i", len(parts))
        for p in parts:
            out += struct.pack(">hiii", 0, p, 1, 1) + struct.pack(">i", 1) + struct.pack(">ii", 1, 1)
    return out


def parse_md_request(req):
    """(api_key, correlation id, [topic names]) of MetadataRequest v0 bytes"""
    api_key, _ver, corr = struct.unpack(">hhi", req[:8])
    (n,) = struct.unpack(">h", req[8:10])
    cur = 10 + max(n, 0)
    (nt,) = struct.unpack(">i", req[cur:cur + 4])
    cur += 4
    names = []
    for _ in range(nt):
        (n,) = struct.unpack(">h", req[cur:cur + 2])
        names.append(req[cur + 2:cur + 2 + n].decode("ascii"))
        cur += 2 + n
    return api_key, corr, names


def script_answer(step, asked, truth):
    rr = random.Random(step.get("seed", 0))
    names = [t for t in asked if t not in step.get("omit", ())]
    rr.shuffle(names)
    ans = []
    for t in names:
        ps = list(truth.get(t, []))
        rr.shuffle(ps)
        if t in step.get("err", {}):
            ans.append((t, step["err"][t], []))
        elif t in step.get("err_parts", {}):
            ans.append((t, step["err_parts"][t], ps))
        elif t in step.get("empty", ()):
            ans.append((t, 0, []))
        elif t not in truth:
            ans.append((t, 3, []))                                      # UNKNOWN_TOPIC_OR_PARTITION
        else:
            ans.append((t, 0, ps))
    for t, ps in step.get("extra", ()):
        ans.insert(rr.randint(0, len(ans)), (t, 0, list(ps)))
    return ans


def scripted_client(clock, truth, script, log):
    """a REAL afkak KafkaClient whose broker-agnostic transport is the scripted broker; log gets one entry per
    request: {"asked": [...], "answer": [(name, err, parts)]}"""
    from twisted.internet import defer
    from afkak.client import KafkaClient
    client = KafkaClient("broker1:9092", reactor=clock, enable_protocol_version_discovery=False)

    def unaware(correlation_id, request):
        api_key, corr, asked = parse_md_request(bytes(request))
        if api_key != 3:
            return defer.fail(RuntimeError("unexpected api key %r in a partition lookup" % (api_key,)))
        step = script[min(len(log), len(script) - 1)]
        ans = script_answer(step, asked, truth)
        log.append({"asked": asked, "answer": ans})
        return defer.succeed(md_response(corr, ans))

    client._send_broker_unaware_request = unaware
    return client


def pump(clock, done, limit=40):
    """fire timers in deadline order until done() or nothing is armed; returns the number of steps"""
    n = 0
    while not done() and n < limit:
        calls = clock.getDelayedCalls()
        if not calls:
            break
        clock.advance(max(0.0, min(c.getTime() for c in calls) - clock.seconds()))
        n += 1
    return n


def good_answer(entry, requested):
    """did this answer give every requested topic error 0 and at least one partition"""
    got = {t: (err, ps) for t, err, ps in entry["answer"]}
    return all(t in got and got[t][0] == 0 and got[t][1] for t in requested)


def omitted_in(log, requested):
    """requested topics that some answer left out although the request (or the caller) named them"""
    out = set()
    for e in log:
        out.update(set(requested) - {t for t, _e, _p in e["answer"]})
    return sorted(out)


def monitor_snapshot(requested, truth, log, result, client=None):
    """The documented contract of KafkaClient._load_topic_partitions (client.py:412-424) on one finished lookup:
    an entry for each requested topic; each list non-empty and equal to the partitions of the answer the result is
    built from; no requested topic in error; and it fires exactly when an answer is good (not before, not later)."""
    if not log:
        return "no metadata request was sent"
    if result is None:
        if any(good_answer(e, requested) for e in log):
            return "the broker answered every requested topic with partitions, yet the lookup did not finish"
        return None
    if not isinstance(result, dict):
        return "lookup failed: %r" % (result,)
    last = {t: (err, ps) for t, err, ps in log[-1]["answer"]}
    for t in requested:
        if t not in result:
            return "snapshot has no entry for requested topic %r (requested %r, snapshot keys %r)" % (t, sorted(requested), sorted(result))
        ps = list(result[t])
        if not ps:
            return "snapshot lists no partitions for %r" % (t,)
        if t in last and (last[t][0] != 0 or not last[t][1]):
            return "snapshot returned although the last answer has %r in error %r / without partitions" % (t, last[t][0])
        if t in last and sorted(ps) != sorted(set(last[t][1])):
            return "snapshot of %r is %r, the broker said %r" % (t, ps, sorted(last[t][1]))
        if client is not None and client.metadata_error_for_topic(t) != 0:
            return "metadata_error_for_topic(%r) = %r after the snapshot" % (t, client.metadata_error_for_topic(t))
    for k, e in enumerate(log[:-1]):
        if good_answer(e, requested) and not omitted_in([e], e["asked"]):
            return "answer %d was complete, yet %d more request(s) followed" % (k, len(log) - 1 - k)
    return None


def lookup_round(requested, truth, script):
    """KafkaClient._load_topic_partitions(*requested) against the scripted broker.
    Returns (log, result-or-None-or-error-string, client)."""
    from twisted.internet.task import Clock
    clock = Clock()
    log, res = [], []
    client = scripted_client(clock, truth, script, log)
    try:
        d = client._load_topic_partitions(*requested)
        d.addCallbacks(res.append, lambda f: res.append("%s: %s" % (type(f.value).__name__, f.value)))
        pump(clock, lambda: bool(res))
    except Exception as e:  # noqa: BLE001
        res.append("raised %s: %s" % (type(e).__name__, e))
    return log, (res[0] if res else None), client


def gen_script(rnd, topics, kind):
    """kind: echo | retry | extra | omit"""
    topics = list(topics)
    seed = rnd.randrange(1 << 16)
    if kind == "echo":
        return [{"seed": seed}]
    if kind == "extra":
        return [{"seed": seed, "extra": [["zz-not-asked", [rnd.randint(0, 9), 11]]]}]
    if kind == "retry":
        steps = []
        for _ in range(rnd.choice([1, 1, 2, 3])):
            st = {"seed": rnd.randrange(1 << 16)}
            bad = rnd.sample(topics, rnd.randint(1, len(topics)))
            for t in bad:
                how = rnd.random()
                if how < 0.4:
                    st.setdefault("err", {})[t] = rnd.choice([5, 3, 9])
                elif how < 0.6:
                    st.setdefault("err_parts", {})[t] = 5                 # LEADER_NOT_AVAILABLE with partitions listed
                else:
                    st.setdefault("empty", []).append(t)
            steps.append(st)
        return steps + [{"seed": seed}]
    # omit: a requested topic is missing from an answer
    t = rnd.choice(topics)
    r = rnd.random()
    others = [x for x in topics if x != t]
    if r < 0.4 or not others:
        return [{"seed": seed, "omit": [t]}]                               # never answered
    if r < 0.7:
        return [{"seed": seed, "omit": [t]}, {"seed": seed + 1}]           # left out of the first answer only
    return [{"seed": seed, "omit": [t], "err": {rnd.choice(others): 5}}, {"seed": seed + 1}]   # ... while another topic must be retried


def normal_tp(tp):
    """what a broker can say: each topic's distinct partition ids"""
    return collections.OrderedDict((t, sorted(set(ps))) for t, ps in tp.items())


def second_generation_map(rnd, members, tp1):
    """the partition lists of the same topics one generation later: a subscribed topic grows, shrinks or is renumbered"""
    subscribed = sorted({t for _m, subs in members for t in subs if t in tp1})
    out = collections.OrderedDict((t, list(ps)) for t, ps in tp1.items())
    for t in rnd.sample(subscribed, rnd.randint(1, max(1, min(2, len(subscribed))))):
        ps = list(out[t])
        how = rnd.random()
        top = max(ps) if ps else -1
        if how < 0.5 or len(ps) < 2:
            ps = ps + [p for p in range(top + 1, top + 1 + rnd.randint(1, 4)) if p <= I32MAX]       # grows
        elif how < 0.8:
            ps = ps[:rnd.randint(1, len(ps) - 1)]                                                     # shrinks
        else:
            ps = sorted({(p + 1) % 2147483647 for p in ps})                                           # other ids
        out[t] = ps or [0]
    return out


def two_generation_verdict(ck, members, tp1, tp2, li, script):
    """(what is wrong or None, detail) for one two-generation round"""
    info = {}
    got, err = e2e_round(members, tp1, li, None, lookup=script, info=info, second=tp2)
    detail = {"error": err, "received_second_generation": repr(got), "received_first_generation": repr(info.get("first_generation")),
              "lookups": [e["asked"] for e in info.get("lookup_log", [])]}
    if err:
        return "round failed: %s" % err, detail
    want1, want2 = ck_model_decoded(ck, members, tp1), ck_model_decoded(ck, members, tp2)
    detail["model_second_generation"] = repr(want2)
    if info.get("first_generation") != want1:
        return "first generation differs from the proved assignment", detail
    # the property, restated on what the members received: every partition of every subscribed topic, as listed NOW, exactly once
    subscribed = {t for _m, subs in members for t in subs}
    for t in sorted(subscribed):
        owners = collections.Counter(p for d in got.values() for p in d.get(t, ()))
        if sorted(owners.elements()) != sorted(tp2.get(t, [])):
            return ("topic %r: the partitions assigned in the second generation %r are not the topic's current partitions %r"
                    % (t, sorted(owners.elements()), sorted(tp2.get(t, [])))), detail
    if got != want2:
        return "second generation differs from the proved assignment of the current partition lists", detail
    return None, detail


def e2e_round(members, tp, leader_idx=0, order_seed=None, lookup=None, info=None, public=False, second=None):
    """One rebalance of a group whose members are real afkak Coordinator objects talking to a scripted
    group coordinator.  Requests are the bytes the real encoders produce (parsed here independently);
    responses are bytes built here and decoded by the real decoders.
      leader_idx : which member the coordinator elects (index into members, modulo)
      order_seed : None = the JoinGroup response lists the members in join order, else shuffled by that seed
      lookup     : None = client._load_topic_partitions stubbed by its documented contract;
                   a script (see script_answer) = the REAL KafkaClient._load_topic_partitions against that broker
      info       : dict filled with what the lookup did (requests, snapshot) and whether the leader sent SyncGroup
      public     : drive the public join_and_sync() (whose errback decides between rejoin and log-only) instead of
                   _join_and_sync(); info then says whether anything is left scheduled for the leader afterwards
      second     : None, or the partition map of a SECOND generation: after the first rebalance completed the
                   topics' partition lists change to it and every member rejoins (same Coordinator objects, same
                   leader - what a heartbeat answered REBALANCE_IN_PROGRESS leads to); the return value is then what
                   the members received in the second generation, info["first_generation"] what they got in the first
    Returns ({member_id: {topic: tuple}} as passed to on_join_complete, error-or-None)."""
    from twisted.internet import defer
    from twisted.internet.task import Clock
    from afkak._group import Coordinator
    from afkak.kafkacodec import KafkaCodec

    clock = Clock()
    tp = collections.OrderedDict((t, list(ps)) for t, ps in tp.items())      # private copy: a second generation edits it in place
    received, errors = {}, []
    joined, syncs = [], {}
    state = {"leader_bytes": None}
    ids = [m for m, _ in members]
    leader = ids[leader_idx % len(ids)]
    info = info if info is not None else {}
    info.update({"lookup_log": [], "snapshots": [], "leader": leader, "leader_sent_sync": False})

    def read_short(b, cur):
        (n,) = struct.unpack(">h", b[cur:cur + 2])
        return b[cur + 2:cur + 2 + n], cur + 2 + n

    class Client(object):
        reactor = clock

        def __init__(self, mid):
            self.mid = mid
            self.real = scripted_client(clock, tp, lookup, info["lookup_log"]) if lookup is not None else None

        def _get_coordinator_for_group(self, group):
            return defer.succeed(object())

        def load_metadata_for_topics(self, *topics):
            return defer.succeed(None)

        def _load_topic_partitions(self, *topics):
            if self.real is None:
                # contract of client._load_topic_partitions: an entry, non-empty, for each requested topic
                return defer.succeed({t: list(tp[t]) for t in topics})
            d = self.real._load_topic_partitions(*topics)      # the real method, real metadata codec, real cache merge

            def rec(r):
                info["snapshots"].append({"requested": sorted(topics), "result": r if isinstance(r, dict) else repr(r),
                                          "client": self.real})
                return r
            return d.addBoth(rec)

        def _send_request_to_coordinator(self, group, payload, encoder_fn, decode_fn, **kw):
            req = encoder_fn(client_id=b"cid", correlation_id=7, payload=payload)
            (api_key, _ver, _corr) = struct.unpack(">hhi", req[:8])
            _cid, cur = read_short(req, 8)
            d = defer.Deferred()
            if api_key == KafkaCodec.JOIN_GROUP_KEY:
                _group, cur = read_short(req, cur)
                cur += 4
                _member, cur = read_short(req, cur)
                _ptype, cur = read_short(req, cur)
                (nproto,) = struct.unpack(">i", req[cur:cur + 4])
                cur += 4
                _pname, cur = read_short(req, cur)
                (n,) = struct.unpack(">i", req[cur:cur + 4])
                metadata = req[cur + 4:cur + 4 + n]
                joined.append((self.mid, metadata, d, decode_fn))
                if len(joined) == len(ids):
                    flush_joins()
            elif api_key == KafkaCodec.SYNC_GROUP_KEY:
                _group, cur = read_short(req, cur)
                cur += 4
                _member, cur = read_short(req, cur)
                (n,) = struct.unpack(">i", req[cur:cur + 4])
                cur += 4
                sent = []
                for _i in range(n):
                    mid, cur = read_short(req, cur)
                    (ln,) = struct.unpack(">i", req[cur:cur + 4])
                    sent.append((mid.decode("utf-8"), req[cur + 4:cur + 4 + ln]))
                    cur += 4 + ln
                syncs[self.mid] = (sent, d, decode_fn)
                if self.mid == leader:
                    state["leader_bytes"] = sent
                    info["leader_sent_sync"] = True
                if len(syncs) == len(ids):
                    flush_syncs()
            else:
                d.errback(RuntimeError("unexpected api key %r" % api_key))
            return d

        def _handle_responses(self, *a, **kw):
            pass

    def flush_joins():
        listing = list(joined)
        if order_seed is not None:
            random.Random(order_seed).shuffle(listing)          # the coordinator lists the members in its own order
        for mid, _metadata, d, decode_fn in list(joined):
            body = struct.pack(">ihi", 7, 0, 1) + _short(b"consumer") + _short(leader.encode("utf-8")) + _short(mid.encode("utf-8"))
            if mid == leader:
                body += struct.pack(">i", len(listing))
                for m2, md2, _d, _f in listing:
                    body += _short(m2.encode("utf-8")) + struct.pack(">i", len(md2)) + md2
            else:
                body += struct.pack(">i", 0)
            d.callback(decode_fn(body))

    def flush_syncs():
        sent = dict(state["leader_bytes"] or [])
        for mid, (_sent, d, decode_fn) in list(syncs.items()):
            b = sent.get(mid, b"")
            d.callback(decode_fn(struct.pack(">ih", 7, 0) + struct.pack(">i", len(b)) + b))

    class Member(Coordinator):
        def on_join_complete(self, assignment):
            received[self.client.mid] = {t: tuple(ps) for t, ps in assignment.items()}

        def rejoin_after_error(self, result, label=None):
            errors.append("%s: %r" % (label, result))

    coords = []
    for mid, subs in members:
        c = Member(Client(mid), "g", list(subs))
        c._heartbeat_looper.clock = clock
        coords.append(c)
    info["leader_error"] = None
    if public:
        logging.disable(logging.CRITICAL)                    # join_and_sync() logs the escaping exception (stderr noise)
    try:
        for c in coords:
            d = c.join_and_sync() if public else c._join_and_sync()

            def failed(f, c=c):
                errors.append(repr(f.value))
                if c.client.mid == leader:
                    info["leader_error"] = f.value
            d.addErrback(failed)
        if lookup is not None:
            pump(clock, lambda: bool(errors) or set(received) == set(ids))
        if second is not None and not errors and set(received) == set(ids):
            info["first_generation"] = dict(received)
            tp.clear()
            tp.update((t, list(ps)) for t, ps in second.items())               # the topics grew / shrank
            received.clear()
            del joined[:]
            syncs.clear()
            state["leader_bytes"] = None
            info["leader_sent_sync"] = False
            info["lookups_before_second_generation"] = len(info["lookup_log"])
            for c in coords:
                d = c._join_and_sync()                                         # the rejoin of a rebalance

                def failed2(f, c=c):
                    errors.append("second generation: " + repr(f.value))
                d.addErrback(failed2)
            if lookup is not None:
                pump(clock, lambda: bool(errors) or set(received) == set(ids))
        for c in coords:
            if c._heartbeat_looper.running:
                c._heartbeat_looper.stop()
        info["timers_armed_afterwards"] = len(clock.getDelayedCalls())
        info["rejoin_after_error_calls"] = len([e for e in errors if e.startswith("join_and_sync:")])
    except Exception as e:  # noqa: BLE001
        errors.append(repr(e))
    finally:
        if public:
            logging.disable(logging.NOTSET)
    if errors:
        return received, "; ".join(errors)[:500]
    if set(received) != set(ids):
        return received, "members without on_join_complete: %r" % (sorted(set(ids) - set(received)),)
    return received, None


# ------------------------------------------------------------------ replay
def model_now(cases):
    """the extracted model on a few case lines, for --replay (None if the runner is not built)"""
    try:
        return vlib.Check("C15", "quick", 0).model(MODEL, cases)
    except Exception as e:  # noqa: BLE001
        print("model runner unavailable:", e)
        return None


def replay(rp):
    """re-runs the recorded case on the implementation (and the model); 0 = the case passes now, 1 = it still fails"""
    op = rp.get("replay_op")
    print(json.dumps({k: v for k, v in rp.items() if k not in ("traceback",)}, indent=1, default=repr)[:4000])
    if op == "two_generations":
        members = [(m, list(s)) for m, s in rp["members"]]
        tp1 = collections.OrderedDict((t, list(ps)) for t, ps in rp["topic_partitions"])
        tp2 = collections.OrderedDict((t, list(ps)) for t, ps in rp["second_generation_topic_partitions"])

        class _Ck(object):
            def model(self, name, cases):
                return model_now(cases)
        bad, detail = two_generation_verdict(_Ck(), members, tp1, tp2, rp.get("leader_idx", 0), rp.get("script"))
        print("two generations now:", json.dumps(detail, indent=1, default=repr)[:3000])
        print("verdict:", bad or "pass")
        return 1 if bad else 0
    if op in ("generate", "e2e", "leader_lookup"):
        members = [(m, list(s)) for m, s in rp["members"]]
        tp = collections.OrderedDict((t, list(ps)) for t, ps in rp["topic_partitions"])
        trace, bad = check_case(members, tp, random.Random(1))
        print("implementation now:", trace)
        print("monitor verdict:", bad)
        mo = model_now([gen_case_line(1, members, tp)])
        if mo is not None:
            print("model:", mo[0])
            if mo[0] != trace:
                bad = bad or "implementation and model differ"
        if op == "generate":
            return 1 if bad else 0
        li, osd = rp.get("leader_idx", 0), rp.get("order_seed")
        info = {}
        got, err = e2e_round(members, tp, li, osd, lookup=rp.get("script"), info=info)
        print("coordinator round now:", got, err)
        if rp.get("script") is not None:
            print("metadata requests:", [e["asked"] for e in info["lookup_log"]])
            print("answers:", [e["answer"] for e in info["lookup_log"]])
            print("snapshots:", [(x["requested"], x["result"]) for x in info["snapshots"]])
            print("leader sent SyncGroup:", info["leader_sent_sync"], " leader error:", repr(info["leader_error"]))
            for sn in info["snapshots"]:
                v = monitor_snapshot(sn["requested"], tp, info["lookup_log"], sn["result"], sn["client"])
                print("snapshot contract:", v)
                bad = bad or v
        want = None
        if mo is not None and mo[0][0] == 0:
            want = ck_model_decoded(vlib.Check("C15", "quick", 0), members, tp)
            if got != want:
                bad = bad or "members received %r, proved assignment %r" % (got, want)
        return 1 if (bad or err) else 0
    if op == "lookup":
        requested = list(rp["requested"])
        truth = collections.OrderedDict((t, list(ps)) for t, ps in rp["truth"])
        log, result, client = lookup_round(requested, truth, rp["script"])
        print("metadata requests:", [e["asked"] for e in log])
        print("answers:", [e["answer"] for e in log])
        print("result:", result)
        v = monitor_snapshot(requested, truth, log, result, client)
        print("snapshot contract:", v, "| topics the broker omitted:", omitted_in(log, requested))
        return 1 if v else 0
    if op == "codec":
        v, d = rp["version"], [(t, list(ps)) for t, ps in rp["assignments"]]
        ud = None if rp["user_data"] is None else bytes(rp["user_data"])
        trace, b = impl_encode(v, d, ud)
        print("encode now:", trace[:200])
        bad = None
        c = [2, v, len(d)]
        for t, ps in d:
            c += lp(cps(t)) + lp(ps)
        mo = model_now([c + ud_line(ud)])
        if mo is not None and mo[0] != trace:
            print("model:", mo[0][:200])
            bad = "encoder and model differ"
        if b is not None:
            dt, r = impl_decode(b)
            print("decode now:", dt[:200])
            if v == 0 and (r is None or r.version != 0 or list(r.assignments.items()) != [(t, tuple(ps)) for t, ps in d] or r.user_data != ud):
                bad = bad or "decode(encode(x)) != x"
            if v != 0 and dt != [-9]:
                bad = bad or "version %d accepted by the decoder" % v
        elif v == 0 and all(all(ord(ch) < 128 for ch in t) and len(t) <= 32767 and all(I32MIN <= p <= I32MAX for p in ps) for t, ps in d):
            bad = bad or "encoder raised on in-range input"
        print("verdict:", bad)
        return 1 if bad else 0
    if op == "decode":
        data = bytes(rp["bytes"])
        trace = impl_decode(data)[0]
        print("decode now:", trace[:200])
        mo = model_now([[3] + lp(list(data))])
        if mo is not None:
            print("model:", mo[0][:200])
            return 0 if mo[0] == trace else 1
        return 1
    if op == "meta":
        bad = None
        if "bytes" in rp:
            data = bytes(rp["bytes"])
            trace, outside = impl_meta_decode(data)
            print("decode now:", trace[:200], "(invalid UTF-8: outside the model)" if outside else "")
            mo = model_now([[5] + lp(list(data))])
            if mo is not None and not outside:
                print("model:", mo[0][:200])
                bad = None if mo[0] == trace else "decoder and model differ"
            elif mo is None:
                bad = "model unavailable"
        else:
            v, subs = rp["version"], list(rp["subscriptions"])
            ud = None if rp.get("user_data") is None else bytes(rp["user_data"])
            trace, b = impl_meta_encode(v, subs, ud)
            print("encode now:", trace[:200])
            c = [4, v, len(subs)]
            for x in subs:
                c += lp(list(x.encode("utf-8")))
            mo = model_now([c + ud_line(ud)])
            if mo is not None and mo[0] != trace and not rp.get("truncated"):
                print("model:", mo[0][:200])
                bad = "encoder and model differ"
            if b is not None:
                from afkak.kafkacodec import KafkaCodec
                r = KafkaCodec.decode_join_group_protocol_metadata(b)
                print("decode now:", (r.version, list(r.subscriptions), r.user_data))
                if (r.version, list(r.subscriptions), r.user_data) != (v, subs, ud):
                    bad = bad or "decode(encode(x)) != x"
        print("verdict:", bad)
        return 1 if bad else 0
    return 1
