# Shared check driver for C19 / C09: seeded runs of the REAL Producer (producer_lib.ImplRun), correspondence with the
# extracted model (coq/Model/Producer.v run_case), monitors, shrinking, replay files.
import json
import random

import vlib
from props import producer_lib as L

MODEL = "producer"
MODULE = "Model.Producer"
OPS = {1: "send", 2: "badsend", 3: "cancel", 4: "tick", 5: "metaset", 6: "metaclearall", 7: "loaddone", 8: "timer",
       9: "version", 10: "result", 11: "stop", 12: "resultomit", 13: "broken"}
OUTS = {1: "produce", 2: "sched", 3: "canceltimer", 4: "resetmeta", 5: "loadmeta", 6: "getversion", 7: "outcome"}


def jsonable_cfg(cfg):
    c = dict(cfg)
    c["nparts"] = {str(k): v for k, v in cfg.get("nparts", {}).items()}
    c["script"] = {(k.decode() if isinstance(k, bytes) else k): v for k, v in cfg.get("script", {}).items()}
    return c


def thresholds(cfg):
    """(n, b) as the Producer uses them (producer.py:140-154)"""
    if cfg["batch"]:
        return cfg["n"], cfg["b"]
    return 1, 1


def thr(cfg, cnt, nbytes):
    n, b = thresholds(cfg)
    return bool((n and n <= cnt) or (b and b <= nbytes))


def size_of(run, sid):
    _k, msgs = run.sends[sid]
    return len(msgs), sum(len(m) for m in msgs if m is not None)


def value_of_mev(mev):
    """the contract value carried by a model event [10|11|12] + value ints (producer_lib.value_ints), decoded from the
    event itself (the python-level event list is not index-aligned with the model events: driver 2, sync results)"""
    tag = mev[1]
    if tag == 0:
        return ("empty",)
    if tag == 1:
        n = mev[2]
        f = mev[3:3 + n]
        return ("resp", [tuple(f[k:k + 4]) for k in range(0, n, 4)])
    if tag == 2:
        n1 = mev[2]
        f1 = mev[3:3 + n1]
        n2 = mev[3 + n1]
        f2 = mev[4 + n1:4 + n1 + n2]
        return ("failed", [tuple(f1[k:k + 4]) for k in range(0, n1, 4)], [tuple(f2[k:k + 3]) for k in range(0, n2, 3)])
    if tag == 3:
        return ("kafka", mev[2])
    return ("other", mev[2])


def steps(run):
    """[(index, model event, outputs in implementation order, snapshot before, snapshot after)]"""
    out, prev = [], run.snap0
    for i, (mev, raw, snap) in enumerate(zip(run.events, run.raw, run.snaps)):
        out.append((i, mev, raw, prev, snap))
        prev = snap
    return out


def produce_sids(o):
    """send ids whose messages are in a produce output [1 attempt magic npl (t p nm mids..)*]"""
    sids, j = [], 4
    for _ in range(o[3]):
        nm = o[j + 2]
        sids += [m // L.MID if m >= 0 else -1 for m in o[j + 3:j + 3 + nm]]
        j += 3 + nm
    return sids


def produce_payloads(o):
    pls, j = [], 4
    for _ in range(o[3]):
        nm = o[j + 2]
        pls.append(((o[j], o[j + 1]), list(o[j + 3:j + 3 + nm])))
        j += 3 + nm
    return pls


def partitioner_monitor(run):
    """The producer keeps ONE partitioner object per topic (producer.py:333-336): the partition chosen for a send is an
    oracle in the model, so what keeps round-robin / any stateful partitioner meaningful is that the object lives on.
    A second partitioner_class(topic, ...) call for a topic whose partition list is unchanged is a violation."""
    bad, seen = [], {}
    for (step, topic, parts) in getattr(run, "partitioner_builds", []):
        if topic in seen and seen[topic][1] == parts:
            bad.append((step, "partitioner: a new partitioner was built for topic %r at step %d although one was built at step %d for the "
                              "same partition list %r (its state - e.g. the round-robin position - is lost)" % (topic, step, seen[topic][0], parts)))
        seen[topic] = (step, parts)
    return bad


# ------------------------------------------------------------------ generation / correspondence
def gen_runs(rnd, n, hist=None, cfg_fn=None):
    runs = []
    for _ in range(n):
        cfg = cfg_fn(rnd) if cfg_fn else None
        run = L.gen_run(rnd, cfg=cfg)
        runs.append(run)
        if hist:
            for mev in run.events:
                hist("ev_" + OPS.get(mev[0], "?"))
            for step in run.trace:
                for o in step:
                    hist("out_" + OUTS.get(o[0], "?"))
            hist("cfg_batch" if run.cfg["batch"] else "cfg_unbatched")
            hist("cfg_acks=%d" % run.cfg["acks"])
            hist("cfg_timer" if (run.cfg["batch"] and run.cfg["t"]) else "cfg_no_timer")
    return runs


def nontrivial(case, out):
    # the trace contains at least one produce request or one outcome
    return any(x in (1, 7) for x in _first_ints(out))


def _first_ints(flat):
    res, i = [], 0
    while i < len(flat):
        n = flat[i]
        i += 1
        for _ in range(n):
            ln = flat[i]
            res.append(flat[i + 1] if ln else 0)
            i += 1 + ln
    return res


def describe(run):
    return {"cfg": jsonable_cfg(run.cfg), "pyevents": run.pyevents}


def correspond(ck, runs, label):
    cases = [r.case_line() for r in runs]
    impl = [r.flat_trace() for r in runs]
    diffs, mo = ck.correspond(MODEL, MODULE, cases, impl, label, nontrivial=nontrivial,
                              describe=lambda c: {"line": c[:80]})
    return diffs, mo


# ------------------------------------------------------------------ shrinking
def _renumber_without(pyevents, k):
    """drop event k; if it hands out a send id, renumber the later ones"""
    ev = pyevents[k]
    rest = list(pyevents[:k])
    if ev[0] in ("send", "badsend"):
        x = ev[1]
        for e in pyevents[k + 1:]:
            if e[0] in ("send", "badsend"):
                rest.append((e[0], e[1] - 1) + tuple(e[2:]))
            elif e[0] == "cancel":
                if e[1] == x:
                    continue
                rest.append(("cancel", e[1] - 1 if e[1] > x else e[1]))
            else:
                rest.append(e)
    else:
        rest += list(pyevents[k + 1:])
    return rest


def shrink(cfg, pyevents, pred, budget=400):
    """greedy event removal while pred(replayed run) holds; pred must be total (exceptions = False)"""
    def ok(evs):
        try:
            return bool(pred(L.replay_run(cfg, evs)))
        except Exception:
            return False
    evs = [L._tuplify(e) if isinstance(e, list) else e for e in pyevents]
    if not ok(evs):
        return evs
    # cut the tail first
    lo = len(evs)
    while lo > 1 and budget > 0 and ok(evs[:lo - 1]):
        lo -= 1
        budget -= 1
    evs = evs[:lo]
    changed = True
    scripted = cfg.get("partitioner") == "scripted"
    while changed and budget > 0:
        changed = False
        for k in range(len(evs) - 1, -1, -1):
            if scripted and evs[k][0] in ("send", "badsend"):
                continue
            cand = _renumber_without(evs, k)
            budget -= 1
            if ok(cand):
                evs, changed = cand, True
                break
            if budget <= 0:
                break
    return evs


def report(ck, run, kind, msgs, monitor, theorems, extra=None):
    """a monitor failed on run: shrink, write the replay"""
    first = msgs[0][1].split(":")[0]
    evs = shrink(run.cfg, run.pyevents, lambda r: any(m[1].split(":")[0] == first for m in monitor(r)))
    try:
        small = L.replay_run(run.cfg, evs)
        m2 = monitor(small)
    except Exception:
        small, m2, evs = run, msgs, run.pyevents
    if not m2:
        small, m2, evs = run, msgs, run.pyevents
    rp = {"kind": kind, "monitor": [list(m) for m in m2[:5]], "theorems": theorems, "cfg": jsonable_cfg(run.cfg),
          "pyevents": evs, "events": small.events, "impl_trace": small.trace, "replay_op": "producer"}
    if extra:
        rp.update(extra)
    ck.violation(rp)


def model_trace(ck, run):
    return ck.model(MODEL, [run.case_line()])[0]


def unflatten(flat):
    steps_, i = [], 0
    while i < len(flat):
        n = flat[i]
        i += 1
        st = []
        for _ in range(n):
            ln = flat[i]
            st.append(flat[i + 1:i + 1 + ln])
            i += 1 + ln
        steps_.append(st)
    return steps_


def report_diff(ck, run, mo, label, theorems, monitor):
    """correspondence differs and no monitor failed on the run itself: look for a failing input around the case
    (prefixes and event-dropped variants), else report the broken correspondence"""
    cfg, evs = run.cfg, list(run.pyevents)
    tried = 0
    for k in range(len(evs), 0, -1):
        try:
            r = L.replay_run(cfg, evs[:k])
        except Exception:
            continue
        tried += 1
        m = monitor(r)
        if m:
            report(ck, r, "monitor failure found near a correspondence difference", m, monitor, theorems,
                   {"correspondence": label})
            return
    impl_steps = run.trace
    model_steps = unflatten(mo)
    first = next((i for i, (a, b) in enumerate(zip(impl_steps, model_steps)) if a != b), min(len(impl_steps), len(model_steps)))
    # minimise the differing case for the report
    def differs(r):
        return r.flat_trace() != ck.model(MODEL, [r.case_line()])[0]
    small = shrink(cfg, evs, differs, budget=150)
    try:
        sr = L.replay_run(cfg, small)
        smo = unflatten(ck.model(MODEL, [sr.case_line()])[0])
        strace, sevents = sr.trace, sr.events
    except Exception:
        small, smo, strace, sevents = evs, model_steps, impl_steps, run.events
    ck.violation({"kind": "correspondence broken: the real Producer no longer behaves like the proved model",
                  "correspondence": "corr:producer:" + label, "theorems_no_longer_tied": theorems,
                  "first_differing_event": first, "cfg": jsonable_cfg(cfg), "pyevents": small, "events": sevents,
                  "impl_trace": strace, "model_trace": smo, "searched_variants": tried, "replay_op": "producer"},
                 no_input=True)


# ------------------------------------------------------------------ replay
def replay(rp, monitor):
    run = L.replay_run(rp["cfg"], rp["pyevents"])
    print("cfg:", json.dumps(rp["cfg"]))
    for i, (ev, mev, raw) in enumerate(zip(run.pyevents, run.events, run.raw)):
        print("%3d %-60s -> %s" % (i, repr(ev)[:60], raw))
    msgs = monitor(run)
    for m in msgs:
        print("MONITOR step %s: %s" % (m[0], m[1]))
    if run.problems:
        print("DRIVER PROBLEMS:", run.problems)
    if "model_trace" in rp:
        print("model trace recorded in the replay:", rp["model_trace"])
        print("implementation trace now          :", run.trace)
        if run.trace != rp["model_trace"]:
            return 1
    return 1 if (msgs or run.problems) else 0
