# C05 - responses and message sets decode to exactly what was encoded.
#
#   abstract response  --harness/kafkaspec_resp.py (independent grammar encoder)-->  bytes
#        |                                                                            |
#        | expected_*(r): the generator's own values as a trace                      | REAL KafkaCodec.decode_* (drained)
#        v                                                                            v
#     monitor "decoding yields exactly the encoded values"  <----- compare ----->  implementation trace
#                                                                                     ^
#   the same bytes --> extracted Coq decoder (Model.Responses via runner `resp`) -----+  ck.correspond
#   the same abstract response --> Coq grammar encoder (Model.KafkaSpecResp, ops 101..114): bytes must be identical
#
# plus message sets (both formats, gzip wrappers as a broker writes them and as afkak's create_gzip_message writes
# them, nesting depth 2 (3 in the thorough tier)) inside Fetch responses, with the compression oracle recorded from
# the real gzip calls (codec_lib.Recorder), and a hostile stream (truncations, mutations, nulls where the grammar
# has none, hostile counts) that is compared with the model only.
# TWO TIES (DESIGN.md 10.2b): besides the correspondence above (tie B) the SOURCE of the 15 response decoders and of the
# 5 readers of _util.py is translated on every run by harness/py2dsl.py into terms of two small deep-embedded languages
# (coq/Model/DecDSL.v, coq/Model/ReadDSL.v) and the soundness theorems "interpreting the translated source = the
# hand-written model" (coq/Props/C05gen.v) are re-checked against that translation (harness/decdsl_tie.py, tie A).
# A decoder the translator refuses, or whose term changed, has tie A down: recorded, sample enlarged, never an alarm alone.
# Also: the encoder steps of afkak (_encode_message_set, create_gzip_message) against Model.MsgSet through the runner
# `codec` (they are what the theorems C05_afkak_* / C05_producer_* speak about), and the compression round-trip law
# (the hypothesis of the message-set theorems) observed on the real afkak.codec.gzip_encode / gzip_decode.
import os
import random

import vlib
from vlib import lp

import kafkaspec_resp as KS
from props import codec_lib as CL

MODEL = "resp"
MODULE = "Model.RespRun"
DEPTH = 6

I16 = (-2 ** 15, 2 ** 15 - 1)
I32 = (-2 ** 31, 2 ** 31 - 1)
I64 = (-2 ** 63, 2 ** 63 - 1)
# every error code the protocol defines (-1 .. 119 covers all releases to date), plus unknown / boundary codes
ERROR_CODES = list(range(-1, 120)) + [-2, -100, 1000, 12345, I16[0], I16[0] + 1, I16[1] - 1, I16[1]]

TOPICS = [b"t", b"topic-1", b"a.b_c-d", b"T" * 249, b"", b"\x00", b"\x7f", bytes(range(0x20, 0x7F)), b"__consumer_offsets"]
TEXTS = ["", "m", "member-1", "consumer-1-8a6b", "café", "日本語", "\U0001F600grp", "\x00", "\x7f\u0080",
         "߿ࠀ￿", "\U00010000\U0010ffff", "range", "roundrobin"]
HOSTS = [b"localhost", b"kafka-1.example.com", b"10.0.0.1", b"::1", b"", b"h" * 255]


class Gen:
    """seeded value source; the error-code field walks through ERROR_CODES so every code is used on every run"""

    def __init__(self, rnd):
        self.rnd = rnd
        self.nerr = 0
        self.codes_used = set()

    def err(self):
        if self.rnd.random() < 0.35:
            e = 0
        else:
            e = ERROR_CODES[self.nerr % len(ERROR_CODES)]
            self.nerr += 1
        self.codes_used.add(e)
        return e

    def rng(self, bounds, small=1000):
        lo, hi = bounds
        r = self.rnd.random()
        if r < 0.3:
            return self.rnd.choice([lo, lo + 1, -1, 0, 1, hi - 1, hi])
        if r < 0.7:
            return self.rnd.randint(0, small)
        return self.rnd.randint(lo, hi)

    def i32(self):
        return self.rng(I32)

    def i64(self):
        return self.rng(I64, 10 ** 6)

    def i16(self):
        return self.rng(I16, 20)

    def topic(self):
        r = self.rnd.random()
        if r < 0.6:
            return self.rnd.choice(TOPICS)
        return bytes(self.rnd.choice(b"abcdefghijklmnopqrstuvwxyzABCXYZ0123456789._-") for _ in range(self.rnd.randint(1, 30)))

    def text(self):
        return self.rnd.choice(TEXTS).encode("utf-8")

    def host(self):
        return self.rnd.choice(HOSTS)

    def blob(self, maxlen=20):
        r = self.rnd.random()
        if r < 0.25:
            return b""
        return CL.rbytes(self.rnd, self.rnd.randint(1, maxlen))

    def oblob(self, maxlen=20):
        return None if self.rnd.random() < 0.25 else self.blob(maxlen)

    def count(self, big=6):
        return self.rnd.choice([0, 0, 1, 1, 1, 2, 2, 3, big])

    def ints(self, f, big=6):
        n = self.rnd.randint(9, 40) if self.rnd.random() < 0.08 else self.count(big)
        return [f() for _ in range(n)]


# ------------------------------------------------------------------ abstract responses: generators
def g_produce(g):
    return (g.i32(), [(g.topic(), [(g.i32(), g.err(), g.i64(), g.i64()) for _ in range(g.count())]) for _ in range(g.count(4))], g.i32())


def g_fetch(g, records=None):
    rec = records or (lambda: g.rnd.choice([None, b"", b""]))
    return (g.i32(), g.i32(), [(g.topic(), [(g.i32(), g.err(), g.i64(), rec()) for _ in range(g.count(4))]) for _ in range(g.count(3))])


def g_offsets(g):
    return (g.i32(), [(g.topic(), [(g.i32(), g.err(), g.ints(g.i64)) for _ in range(g.count())]) for _ in range(g.count(4))])


def g_metadata(g, nbrokers=None):
    nb = g.count(8) if nbrokers is None else nbrokers
    dup = g.rnd.random() < 0.15      # duplicate node ids / topic names / partition ids: later entries win
    brokers = [(g.rnd.randint(0, 3) if dup else (g.i32() if g.rnd.random() < 0.3 else i), g.host(), g.i32()) for i in range(nb)]
    topics = []
    for _ in range(g.count(4)):
        parts = [(g.err(), g.rnd.randint(0, 2) if dup else (g.i32() if g.rnd.random() < 0.2 else i), g.i32(), g.ints(g.i32, 5), g.ints(g.i32, 5))
                 for i in range(g.count(5))]
        topics.append((g.err(), g.rnd.choice(TOPICS[:2]) if dup else g.topic(), parts))
    return (g.i32(), brokers, topics)


def g_commit(g):
    return (g.i32(), [(g.topic(), [(g.i32(), g.err()) for _ in range(g.count())]) for _ in range(g.count(4))])


def g_ofetch(g):
    def md():
        r = g.rnd.random()
        return None if r < 0.3 else (b"" if r < 0.5 else g.rnd.choice([b"meta", "méta".encode(), b"\xff\xfe", CL.rbytes(g.rnd, 12)]))
    return (g.i32(), [(g.topic(), [(g.i32(), g.i64(), md(), g.err()) for _ in range(g.count())]) for _ in range(g.count(4))])


def g_coordinator(g):
    return (g.i32(), g.err(), g.i32(), g.host(), g.i32())


def g_join(g):
    return (g.i32(), g.err(), g.i32(), g.text(), g.text(), g.text(), [(g.text(), g.blob(30)) for _ in range(g.count(5))])


def g_errcode(g):
    return (g.i32(), g.err())


def g_sync(g):
    return (g.i32(), g.err(), g.blob(40))


def g_apiversions(g):
    n = g.rnd.choice([0, 1, 3, 19, 38, 60])
    return (g.i32(), g.err(), [(k if g.rnd.random() < 0.8 else g.i16(), g.i16(), g.i16()) for k in range(n)])


def g_subscription(g):
    return (g.i16(), [g.text() for _ in range(g.count(5))], g.oblob())


def g_assignment(g):
    dup = g.rnd.random() < 0.15
    return (0, [(g.rnd.choice(TOPICS[:2]) if dup else g.topic(), g.ints(g.i32, 7)) for _ in range(g.count(5))], g.oblob())


# ------------------------------------------------------------------ abstract response -> case line of the grammar encoder
def olp(b):
    return [-1] if b is None else lp(b)


def c_topics(topics, part):
    out = [len(topics)]
    for name, parts in topics:
        out += lp(name) + [len(parts)]
        for p in parts:
            out += part(p)
    return out


def case_spec(api, r, ver=0):
    if api == "produce":
        return [101, ver, r[0], r[2]] + c_topics(r[1], lambda p: list(p))
    if api == "fetch":
        return [102, ver, r[0], r[1]] + c_topics(r[2], lambda p: [p[0], p[1], p[2]] + olp(p[3]))
    if api == "offsets":
        return [103, r[0]] + c_topics(r[1], lambda p: [p[0], p[1]] + lp(p[2]))
    if api == "metadata":
        out = [104, r[0], len(r[1])]
        for node, host, port in r[1]:
            out += [node] + lp(host) + [port]
        out += [len(r[2])]
        for error, name, parts in r[2]:
            out += [error] + lp(name) + [len(parts)]
            for e, i, l, rs, isr in parts:
                out += [e, i, l] + lp(rs) + lp(isr)
        return out
    if api == "commit":
        return [105, r[0]] + c_topics(r[1], lambda p: list(p))
    if api == "ofetch":
        return [106, r[0]] + c_topics(r[1], lambda p: [p[0], p[1]] + olp(p[2]) + [p[3]])
    if api == "coordinator":
        return [107, r[0], r[1], r[2]] + lp(r[3]) + [r[4]]
    if api == "join":
        out = [108, r[0], r[1], r[2]] + lp(r[3]) + lp(r[4]) + lp(r[5]) + [len(r[6])]
        for i, m in r[6]:
            out += lp(i) + lp(m)
        return out
    if api in ("heartbeat", "leave"):
        return [109, r[0], r[1]]
    if api == "sync":
        return [110, r[0], r[1]] + lp(r[2])
    if api == "apiversions":
        out = [111, r[0], r[1], len(r[2])]
        for k in r[2]:
            out += list(k)
        return out
    if api == "subscription":
        out = [112, r[0], len(r[1])]
        for t in r[1]:
            out += lp(t)
        return out + olp(r[2])
    if api == "assignment":
        out = [113, r[0], len(r[1])]
        for t, ps in r[1]:
            out += lp(t) + lp(ps)
        return out + olp(r[2])
    raise ValueError(api)


def spec_bytes(api, r, ver=0):
    f = {"produce": lambda: KS.enc_produce(ver, r), "fetch": lambda: KS.enc_fetch(ver, r), "offsets": lambda: KS.enc_offsets(r),
         "metadata": lambda: KS.enc_metadata(r), "commit": lambda: KS.enc_commit(r), "ofetch": lambda: KS.enc_ofetch(r),
         "coordinator": lambda: KS.enc_coordinator(r), "join": lambda: KS.enc_join(r), "heartbeat": lambda: KS.enc_errcode(r),
         "leave": lambda: KS.enc_errcode(r), "sync": lambda: KS.enc_sync(r), "apiversions": lambda: KS.enc_apiversions(r),
         "subscription": lambda: KS.enc_subscription(r), "assignment": lambda: KS.enc_assignment(r)}[api]
    return f()


def case_tree(t):
    if t[0] == "leaf":
        _, off, (magic, attr, ts, key, value) = t
        return [0, off, magic, attr, ts] + olp(key) + olp(value)
    _, off, magic, attr, ts, key, kids = t
    return [1, off, magic, attr, ts] + olp(key) + case_forest(kids)


def case_forest(ts):
    out = [len(ts)]
    for t in ts:
        out += case_tree(t)
    return out


def oracle_ints(pairs):
    """ORACLE part of a case line from (kind, input, status, output) tuples; snappy is reported by the real code"""
    return CL.Recorder().oracle(extra=pairs)


# ------------------------------------------------------------------ expected traces (the generator's own values)
def dict_last(kvs):
    """Python dict semantics for repeated keys, as sorted (key, value) list"""
    d = {}
    for k, v in kvs:
        d[k] = v
    return sorted(d.items())


def kmsg_ints(m):
    magic, attr, ts, key, value = m
    return [magic, attr] + olp(key) + olp(value) + ([1, ts] if magic == 1 else [0, 0])


def expected(api, r, ver=0, msgs_of=None):
    """trace the decoder must produce for the abstract response r (format: header of Model/RespRun.v)"""
    if api == "produce":
        items = [lp(n) + [p[0], p[1], p[2]] for n, ps in r[1] for p in ps]
        return [len(items)] + sum(items, []) + [0]
    if api == "fetch":
        items = [lp(n) + [p[0], p[1], p[2]] + msgs_of(p[3]) for n, ps in r[2] for p in ps]
        return [len(items)] + sum(items, []) + [0]
    if api == "offsets":
        items = [lp(n) + [p[0], p[1]] + lp(p[2]) for n, ps in r[1] for p in ps]
        return [len(items)] + sum(items, []) + [0]
    if api == "metadata":
        bs = dict_last((node, (node, host, port)) for node, host, port in r[1])
        out = [0, len(bs)]
        for k, (node, host, port) in bs:
            out += [k, node] + lp(host) + [port]
        ts = dict_last((name, (error, name, parts)) for error, name, parts in r[2])
        out += [len(ts)]
        for k, (error, name, parts) in ts:
            ps = dict_last((i, (e, i, l, rs, isr)) for e, i, l, rs, isr in parts)
            out += lp(k) + lp(name) + [error, len(ps)]
            for pk, (e, i, l, rs, isr) in ps:
                out += [pk, i] + lp(name) + [e, l] + lp(rs) + lp(isr)
        return out
    if api == "commit":
        items = [lp(n) + [p[0], p[1]] for n, ps in r[1] for p in ps]
        return [len(items)] + sum(items, []) + [0]
    if api == "ofetch":
        items = [lp(n) + [p[0], p[1]] + olp(p[2]) + [p[3]] for n, ps in r[1] for p in ps]
        return [len(items)] + sum(items, []) + [0]
    if api == "coordinator":
        return [0, r[1], r[2]] + lp(r[3]) + [r[4]]
    if api == "join":
        out = [0, r[1], r[2]] + lp(r[3]) + lp(r[4]) + lp(r[5]) + [len(r[6])]
        for i, m in r[6]:
            out += lp(i) + lp(m)
        return out
    if api in ("heartbeat", "leave"):
        return [0, r[1]]
    if api == "sync":
        return [0, r[1]] + lp(r[2])
    if api == "apiversions":
        return [0, r[1], len(r[2])] + [x for k in r[2] for x in k]
    if api == "subscription":
        return [0, r[0], len(r[1])] + sum((lp(t) for t in r[1]), []) + olp(r[2])
    if api == "assignment":
        d = dict_last(r[1])
        return [0, r[0], len(d)] + sum((lp(t) + lp(ps) for t, ps in d), []) + olp(r[2])
    if api == "corr":
        return [0, r]
    raise ValueError(api)


# ------------------------------------------------------------------ implementation runners (REAL KafkaCodec)
BADTYPE = -7777777


def tb(x):
    """decoded text -> LP of its UTF-8 bytes; anything that is not a str is reported as a type marker"""
    return lp(x.encode("utf-8")) if isinstance(x, str) else [BADTYPE]


def ob(x):
    if x is None:
        return [-1]
    return lp(x) if isinstance(x, (bytes, bytearray)) else [BADTYPE]


def iv(x):
    return x if type(x) is int else BADTYPE


def ivs(xs, typ=tuple):
    """integer sequence; the container type is part of the decoded value (tuple for offsets / replicas / isr / assigned
    partitions): anything else is reported as a type marker, which no model trace contains"""
    if type(xs) is not typ:
        return [BADTYPE]
    return [len(xs)] + [iv(x) for x in xs]


def ty(x, name):
    """[] when x is an instance of exactly the named afkak struct / builtin, else a type marker"""
    return [] if type(x).__name__ == name else [BADTYPE]


def drain(make, item):
    out, n, outcome = [], 0, 0
    try:
        for x in make():
            out += item(x)
            n += 1
    except Exception as e:  # noqa
        outcome = CL.exc_code(e)
    return [n] + out + [outcome]


def value(make, show):
    try:
        return [0] + show(make())
    except Exception as e:  # noqa
        return [CL.exc_code(e)]


TSTYPES = []      # Message.timestamp_type of every message decoded by the last drain_messages calls (monitor F-C05-5)


def drain_messages(it):
    out, n, outcome = [], 0, 0
    try:
        for om in it:
            out += ty(om, "OffsetAndMessage") + [iv(om.offset)] + ty(om.message, "Message") + CL.msg_ints(om.message)
            TSTYPES.append((om.message.magic, om.message.attributes, om.message.timestamp_type))
            n += 1
    except Exception as e:  # noqa
        outcome = CL.exc_code(e)
    return [n] + out + [outcome]


ORACLE_AUDIT = []   # recorded codec calls of the real code that Python's own gzip module does not confirm


def audit_pairs(pairs):
    """every answer the real afkak.codec gave during a decode (and that is handed to the model as its oracle) is checked
    against the standard library: gzip_decode(z) must be gzip.decompress(z), gzip_encode(x) must decompress to x"""
    import gzip as _g
    for kind, inp, status, out in pairs:
        try:
            if kind == 1 and status == 0 and _g.decompress(inp) != out:
                ORACLE_AUDIT.append({"call": "gzip_decode", "input_hex": inp.hex()[:4000], "input_len": len(inp),
                                     "afkak_returned_len": len(out), "stdlib_len": len(_g.decompress(inp))})
            if kind == 2 and status == 0 and _g.decompress(out) != inp:
                ORACLE_AUDIT.append({"call": "gzip_encode", "input_len": len(inp), "afkak_returned_len": len(out)})
        except Exception as e:  # noqa  (stdlib refuses what afkak accepted)
            ORACLE_AUDIT.append({"call": "gzip kind %d" % kind, "input_len": len(inp), "stdlib_error": repr(e)})


def impl_decode(op, data, ver=0):
    """returns (trace, oracle ints) - the oracle is only non-trivial for op 4"""
    from afkak.kafkacodec import KafkaCodec as K
    data = bytes(data)
    if op == 1:
        return value(lambda: K.get_response_correlation_id(data), lambda c: [iv(c)]), None
    if op == 2:
        return value(lambda: K.decode_api_versions_response(data),
                     lambda v: ty(v, "ApiVersionResponse") + ty(v.api_versions, "list") + [iv(v.error_code), len(v.api_versions)]
                     + [y for a in v.api_versions for y in ty(a, "ApiVersion") + [iv(a.api_key), iv(a.min_version), iv(a.max_version)]]), None
    if op == 3:
        return drain(lambda: K.decode_produce_response(data, ver), lambda x: ty(x, "ProduceResponse") + tb(x.topic) + [iv(x.partition), iv(x.error), iv(x.offset)]), None
    if op == 4:
        with CL.Recorder() as rec:
            tr = drain(lambda: K.decode_fetch_response(data, ver),
                       lambda x: ty(x, "FetchResponse") + tb(x.topic) + [iv(x.partition), iv(x.error), iv(x.highwaterMark)] + drain_messages(x.messages))
            orc = rec.oracle()
            audit_pairs(rec.pairs)
        return tr, orc
    if op == 5:
        return drain(lambda: K.decode_offset_response(data), lambda x: ty(x, "OffsetResponse") + tb(x.topic) + [iv(x.partition), iv(x.error)] + ivs(x.offsets)), None
    if op == 6:
        def show(bt):
            brokers, topics = bt
            out = ty(brokers, "dict") + ty(topics, "dict") + [len(brokers)]
            for k, b in sorted(brokers.items()):
                out += ty(b, "BrokerMetadata") + [iv(k), iv(b.node_id)] + tb(b.host) + [iv(b.port)]
            out += [len(topics)]
            for k, t in sorted(topics.items(), key=lambda kv: kv[0].encode("utf-8")):
                out += ty(t, "TopicMetadata") + ty(t.partition_metadata, "dict") + tb(k) + tb(t.topic) + [iv(t.topic_error_code), len(t.partition_metadata)]
                for pk, p in sorted(t.partition_metadata.items()):
                    out += ty(p, "PartitionMetadata") + [iv(pk), iv(p.partition)] + tb(p.topic) + [iv(p.partition_error_code), iv(p.leader)] + ivs(p.replicas) + ivs(p.isr)
            return out
        return value(lambda: K.decode_metadata_response(data), show), None
    if op == 7:
        return value(lambda: K.decode_consumermetadata_response(data), lambda v: ty(v, "ConsumerMetadataResponse") + [iv(v.error), iv(v.node_id)] + tb(v.host) + [iv(v.port)]), None
    if op == 8:
        return drain(lambda: K.decode_offset_commit_response(data), lambda x: ty(x, "OffsetCommitResponse") + tb(x.topic) + [iv(x.partition), iv(x.error)]), None
    if op == 9:
        return drain(lambda: K.decode_offset_fetch_response(data),
                     lambda x: ty(x, "OffsetFetchResponse") + tb(x.topic) + [iv(x.partition), iv(x.offset)] + ob(x.metadata) + [iv(x.error)]), None
    if op == 10:
        return value(lambda: K.decode_join_group_protocol_metadata(data),
                     lambda v: ty(v, "_JoinGroupProtocolMetadata") + ty(v.subscriptions, "list") + [iv(v.version), len(v.subscriptions)]
                     + sum((tb(s) for s in v.subscriptions), []) + ob(v.user_data)), None
    if op == 11:
        return value(lambda: K.decode_join_group_response(data),
                     lambda v: ty(v, "_JoinGroupResponse") + ty(v.members, "list") + [iv(v.error), iv(v.generation_id)] + tb(v.group_protocol)
                     + tb(v.leader_id) + tb(v.member_id) + [len(v.members)]
                     + sum((ty(m, "_JoinGroupResponseMember") + tb(m.member_id) + ob(m.member_metadata) for m in v.members), [])), None
    if op == 12:
        return value(lambda: K.decode_leave_group_response(data), lambda v: ty(v, "_LeaveGroupResponse") + [iv(v.error)]), None
    if op == 13:
        return value(lambda: K.decode_heartbeat_response(data), lambda v: ty(v, "_HeartbeatResponse") + [iv(v.error)]), None
    if op == 14:
        return value(lambda: K.decode_sync_group_response(data), lambda v: ty(v, "_SyncGroupResponse") + [iv(v.error)] + ob(v.member_assignment)), None
    if op == 15:
        return value(lambda: K.decode_sync_group_member_assignment(data),
                     lambda v: ty(v, "_SyncGroupMemberAssignment") + ty(v.assignments, "dict") + [iv(v.version), len(v.assignments)]
                     + sum((tb(t) + ivs(ps) for t, ps in sorted(v.assignments.items(), key=lambda kv: kv[0].encode("utf-8"))), []) + ob(v.user_data)), None
    raise ValueError(op)


def case_decode(op, data, ver=0, orc=None, depth=DEPTH):
    if op == 3:
        return [3, ver] + lp(data)
    if op == 4:
        return [4, ver, depth] + list(orc if orc is not None else oracle_ints([])) + lp(data)
    return [op] + lp(data)


def case_wf(api, r, ver=0):
    """case line of the runner ops 201..213: Coq's wf_ predicate and  trace(decode(enc r)) = trace(view r)  on r"""
    c = case_spec(api, r, ver)
    return [c[0] + 100] + c[1:]


def impl_tstypes(data):
    """Message.timestamp_type of every message _decode_message_set_iter yields (runner op 16)"""
    from afkak.kafkacodec import KafkaCodec as K
    out, outcome = [], 0
    with CL.Recorder() as rec:
        try:
            for om in K._decode_message_set_iter(bytes(data)):
                out.append(iv(om.message.timestamp_type))
        except Exception as e:  # noqa
            outcome = CL.exc_code(e)
        orc = rec.oracle()
    return [len(out)] + out + [outcome], orc


def impl_fetch_late(data, ver):
    """the same trace as impl_decode(4, ..) but consuming differently: the outer generator is exhausted FIRST, the
    .messages iterators are drained afterwards in REVERSE partition order"""
    from afkak.kafkacodec import KafkaCodec as K
    try:
        items = list(K.decode_fetch_response(bytes(data), ver))
    except Exception as e:  # noqa
        return None
    msgs = {}
    for i in reversed(range(len(items))):
        msgs[i] = drain_messages(items[i].messages)
    out = []
    for i, x in enumerate(items):
        out += ty(x, "FetchResponse") + tb(x.topic) + [iv(x.partition), iv(x.error), iv(x.highwaterMark)] + msgs[i]
    return [len(items)] + out + [0]


def hexcap(data, cap=20000):
    return data.hex() if len(data) <= cap else data[:cap].hex() + "..."


API_OP = {"corr": 1, "apiversions": 2, "produce": 3, "fetch": 4, "offsets": 5, "metadata": 6, "coordinator": 7, "commit": 8,
          "ofetch": 9, "subscription": 10, "join": 11, "leave": 12, "heartbeat": 13, "sync": 14, "assignment": 15}
GENS = {"produce": g_produce, "fetch": g_fetch, "offsets": g_offsets, "metadata": g_metadata, "commit": g_commit, "ofetch": g_ofetch,
        "coordinator": g_coordinator, "join": g_join, "heartbeat": g_errcode, "leave": g_errcode, "sync": g_sync,
        "apiversions": g_apiversions, "subscription": g_subscription, "assignment": g_assignment}
VERSIONS = {"produce": (0, 2, 2, 3, 7), "fetch": (0, 2, 2, 4)}   # decoder api_version argument; >= 2 means the v2 layout


# ------------------------------------------------------------------ message sets
def g_kmsg(g, magic):
    attr = g.rnd.choice([0, 0, 0, 8, 0xF0, 0xF8, 0x10])       # codec bits 0..2 all 0, the other bits arbitrary
    ts = g.rnd.choice([0, 1, -1, 1500000000000, I64[0], I64[1], g.rnd.getrandbits(41)])
    return (magic, attr, ts, g.oblob(8), g.oblob(16))


def g_forest(g, depth, base, n=None, broker=True):
    """a stored message set.  broker=True: offsets as a broker writes them (consecutive absolute offsets from `base`;
    inside a magic-1 wrapper relative 0..k-1 with the wrapper at the absolute offset of the last inner message; inside
    a magic-0 wrapper absolute).  broker=False: arbitrary (also non-monotone) offsets everywhere.
    Returns (trees, next absolute offset)."""
    n = g.rnd.randint(1, 4) if n is None else n
    trees, off = [], base
    for _ in range(n):
        magic = g.rnd.choice([0, 1])
        if depth > 0 and g.rnd.random() < 0.5:
            k = g.rnd.randint(0 if g.rnd.random() < 0.1 else 1, 3)
            if not broker:
                kids, _ = g_forest(g, depth - 1, g.i64() // 2, k, False)
                woff = g.i64() // 2
                nxt = off
            elif magic == 0:
                kids, nxt = g_forest(g, depth - 1, off, k)
                woff = max(nxt - 1, off)
            else:
                kids, cnt = g_forest(g, depth - 1, 0, k)
                nxt = off + max(cnt, 1)
                woff = nxt - 1
            attr = 1 | g.rnd.choice([0, 0, 8])
            trees.append(("wrap", woff, magic, attr, g.rnd.choice([0, 5, 1500000000000]), g.rnd.choice([None, None, b"wk"]), kids))
            off = nxt
        else:
            trees.append(("leaf", off if broker else g.i64() // 2, g_kmsg(g, magic)))
            off += 1
    return trees, off


def expected_log(trees):
    log = KS.log_of_forest(trees)
    return [len(log)] + sum(([o] + kmsg_ints(m) for o, m in log), []) + [0]


def afkak_set(g, rec_clock=1600000000000, big=False):
    """a message set produced by afkak's OWN encoder (create_message / create_gzip_message / create_message_set /
    _encode_message_set).  Returns (bytes, expected trace of the decoder, description)."""
    from afkak.common import SendRequest
    from afkak.kafkacodec import KafkaCodec, create_gzip_message, create_message, create_message_set
    rnd = g.rnd
    magic = rnd.choice([0, 1])
    kind = rnd.choice(["plain", "plain_none", "gzip", "gzip", "create_set_gzip", "nested2", "nested2_mixed"])
    if big:
        kind = rnd.choice(["gzip", "create_set_gzip", "nested2"])
    with CL.Recorder(rec_clock, 1) as rec:
        payloads = [(g.oblob(6), g.oblob(12)) for _ in range(rnd.randint(0 if kind.startswith("plain") else 1, 4))]
        if big:      # inner set > 64 KiB, incompressible: > 16 KiB compressed
            payloads = [(g.oblob(6), CL.rbytes(rnd, 1024)) for _ in range(80)]
        msgs = [create_message(v, k, magic) for k, v in payloads]
        if rnd.random() < 0.3 and magic == 1:   # explicit timestamps, arbitrary attribute bits outside the codec mask
            msgs = [CL.mk_msg(1, rnd.choice([0, 8, 0xF0]), m.key, m.value, rnd.choice([0, -1, I64[1], I64[0], 77])) for m in msgs]
        base = rnd.choice([0, 1, 100, 2 ** 40, I64[1] - 10])
        want_msgs = list(msgs)
        if kind == "plain":
            data = KafkaCodec._encode_message_set(msgs, base, magic)
            want = [(base + i, m) for i, m in enumerate(want_msgs)]
        elif kind == "plain_none":
            data = KafkaCodec._encode_message_set(msgs, None, magic)
            want = [(0, m) for m in want_msgs]
        else:
            if kind == "gzip":
                w = create_gzip_message(msgs, magic)
                wmagic = [magic]
            elif kind == "create_set_gzip":
                reqs = [SendRequest("t", k, [v], None) for k, v in payloads]
                (w,) = create_message_set(reqs, 1, magic)
                want_msgs = None      # timestamps are read from the clock again: compare modulo timestamp below
                wmagic = [magic]
            else:
                m2 = magic if kind == "nested2" else 1 - magic
                w = create_gzip_message([create_gzip_message(msgs, magic)], m2)
                wmagic = [m2, magic]
            data = KafkaCodec._encode_message_set([w], base, wmagic[0])
            # offsets: afkak writes every inner offset as 0 (and an inner wrapper at 0).  A magic-1 OUTER wrapper
            # relocates what it contains to its own offset (base - 0 + 0); a magic-0 outer wrapper passes the stored
            # offsets through (0; an inner magic-1 wrapper stored at 0 relocates to 0 as well).
            off = base if wmagic[0] == 1 else 0
            want = None if want_msgs is None else [(off, m) for m in want_msgs]
    audit_pairs(rec.pairs)
    if big:
        kind = "big_" + kind
    if want is None:
        return data, None, kind + "_magic%d" % magic, payloads
    tr = [len(want)] + sum(([o] + CL.msg_ints(m) for o, m in want), []) + [0]
    return data, tr, kind + "_magic%d" % magic, payloads


# ------------------------------------------------------------------ hostile inputs (correspondence with the model only)
class hostile_grammar:
    """lets the grammar encoder emit nulls where the grammar has none (STRING / BYTES given None)"""

    def __enter__(self):
        self.saved = (KS.STRING, KS.BYTES)
        string, byts = self.saved
        KS.STRING = lambda s: KS.INT16(-1) if s is None else string(s)
        KS.BYTES = lambda b: KS.INT32(-1) if b is None else byts(b)

    def __exit__(self, *a):
        KS.STRING, KS.BYTES = self.saved
        return False


def null_some_strings(rnd, r):
    """replace some bytes values in a nested tuple structure by None / non-ASCII / invalid UTF-8"""
    if isinstance(r, bytes):
        x = rnd.random()
        return None if x < 0.25 else (b"t\xc3\xa9" if x < 0.4 else (b"\xff\xfe" if x < 0.5 else r))
    if isinstance(r, tuple):
        return tuple(null_some_strings(rnd, x) for x in r)
    if isinstance(r, list):
        return [null_some_strings(rnd, x) for x in r]
    return r


def mutations(rnd, data, n):
    data = bytes(data)
    out = []
    for _ in range(n):
        b = bytearray(data)
        kind = rnd.random()
        if kind < 0.3 and len(b) > 0:
            out.append(bytes(b[:rnd.randrange(len(b))]))
        elif kind < 0.4:
            out.append(bytes(b) + CL.rbytes(rnd, rnd.randint(1, 7)))
        elif kind < 0.7 and len(b) >= 4:
            p = rnd.randrange(len(b) - 3)
            v = rnd.choice([-1, -2, I32[0], I32[1], 1025, 1024, 0, 1, 2, 65536])
            b[p:p + 4] = KS.INT32(v)
            out.append(bytes(b))
        elif len(b) > 0:
            for _ in range(rnd.randint(1, 3)):
                b[rnd.randrange(len(b))] = rnd.choice([0, 0xFF, 0x7F, 0x80, rnd.getrandbits(8)])
            out.append(bytes(b))
    return out


# ------------------------------------------------------------------ tie (A): the decoders translated from the source
DECODER_API = {"get_response_correlation_id": "corr", "decode_api_versions_response": "apiversions",
               "decode_produce_response__v0": "produce", "decode_produce_response__v2": "produce", "decode_produce_response__dispatch": "produce",
               "decode_fetch_response": "fetch", "decode_offset_response": "offsets", "decode_metadata_response": "metadata",
               "decode_consumermetadata_response": "coordinator", "decode_offset_commit_response": "commit",
               "decode_offset_fetch_response": "ofetch", "decode_join_group_protocol_metadata": "subscription",
               "decode_join_group_response": "join", "decode_leave_group_response": "leave", "decode_heartbeat_response": "heartbeat",
               "decode_sync_group_response": "sync", "decode_sync_group_member_assignment": "assignment",
               "msg__decode_message": "msgset", "msg__decode_message_set_iter": "msgset"}


def translator_tie(ck):
    """Two-ties rule (DESIGN.md 10.2b).  Tie (A): harness/py2dsl.py translates the source of every response decoder of
    THIS run into a term of the decoder language Model/DecDSL.v (and the readers of _util.py into the reader language
    Model/ReadDSL.v); for the decoders that have a soundness theorem
    (Proofs/DecDSLSound.v: interpreting the term = the hand-written model) the theorem is re-checked against the run's own
    translation in a scratch directory.  A decoder the translator refuses, or whose translation is no longer the term the
    theorem was proved for, has tie (A) DOWN: recorded, never a violation by itself - tie (B), the correspondence, then
    carries that decoder alone on an enlarged sample.  Returns the set of api labels whose tie (A) is down."""
    import decdsl_tie
    r = decdsl_tie.tie(vlib.REPO)
    ck.cov["translator_tie"] = {"per_decoder": r["decoders"], "scratch_dir": os.path.relpath(r["dir"], vlib.ROOT) if r["dir"] else None,
                                "log": r["log"][-1500:], "scratch_result_reused": bool(r.get("cached"))}
    ck.cov["obligations"] += r["obligations"]
    ck.cov["discharged"] += r["discharged"]
    ck.cov["theorems"] += r["theorems"]
    if r["cmd"]:
        ck.cov["checker_cmd"] += " ; " + r["cmd"]
    ck.cov["trusted_base"].append("translator harness/py2dsl.py (syntactic map Python ast -> Model.DecDSL.stmt; the meaning of the statement forms is "
                                  "the Gallina interpreter DecDSL.exec) for the decoders listed intact under translator_tie")
    intact = sorted(k for k, v in r["decoders"].items() if v == "intact")
    down = sorted(k for k, v in r["decoders"].items() if v != "intact" and not v.startswith("same term"))
    ck.cov["translator_tie"]["intact"] = intact
    ck.cov["translator_tie"]["not_yet_covered"] = sorted(k for k, v in r["decoders"].items() if v.startswith("same term"))
    ck.cov["translator_tie"]["down"] = down
    for k in intact:
        ck.hist("translator_tie_intact")
    apis = {DECODER_API[k] for k in down if k in DECODER_API}
    if any(k.startswith("util_") for k in down):      # a primitive reader every decoder uses
        apis |= {"util"}
    return apis


def correspond_chunks(ck, model, module, cases, impl, label, nontrivial, describe, chunk=3000):
    """ck.correspond in chunks (each run of the extracted model has its own timeout); indices are global"""
    diffs, mo = [], []
    for a in range(0, max(len(cases), 1), chunk):
        d, m = ck.correspond(model, module, cases[a:a + chunk], impl[a:a + chunk], label, nontrivial=nontrivial, describe=describe)
        diffs += [a + i for i in d]
        mo += m
    return diffs, mo


def describe(c):
    return {"op": c[0], "line": c[:48]}


def run(ck):
    vlib.import_repo()
    del ORACLE_AUDIT[:]
    ck.build([MODEL, CL.MODEL])
    ck.props()
    tie_down = translator_tie(ck)
    rnd = random.Random(ck.seed)
    g = Gen(rnd)
    thorough = ck.tier == "thorough"
    scale = 1 if not thorough else 50
    per_api = (30 if not thorough else 40 * scale)

    # ================= 1. well-formed responses of every API/version
    spec_cases, spec_impl = [], []            # grammar encoder: Python vs Coq
    wf_cases = []                             # Coq wf_ / view_ evaluated on the generated responses: must answer 1 1
    ts_cases, ts_impl = [], []                # Message.timestamp_type of decoded messages vs Model.RespView.py_decoded
    dec_cases, dec_impl, dec_meta = [], [], []
    notes = []

    def add(api, r, ver=0, data=None, want=None, orc_hint=None, label=None, monitor=True):
        data = spec_bytes(api, r, ver) if data is None else data
        op = API_OP[api]
        del TSTYPES[:]
        tr, orc = impl_decode(op, data, ver)
        for mg, att, tt in TSTYPES:
            ck.hist("decoded_attr_bit3_set" if (att >> 3) & 1 else "decoded_attr_bit3_clear")
            if tt != 0 or type(tt) is not int:
                ck.violation({"kind": "decoded Message.timestamp_type is not the documented 0 (common.py:650)", "magic": mg, "attributes": att,
                              "timestamp_type": repr(tt), "api": api, "api_version": ver, "op": op, "data_hex": hexcap(data),
                              "replay_op": "tstype"})
                break
        dec_cases.append(case_decode(op, data, ver, orc))
        dec_impl.append(tr)
        dec_meta.append((api, ver, data, want, label or api))
        ck.hist("decode_" + (label or api) + ("_v%d" % ver if api in VERSIONS else ""))
        if monitor and want is not None and tr != want:
            ck.violation({"kind": "decoding does not yield the encoded values", "api": api, "api_version": ver, "op": op,
                          "abstract_response": r if len(data) < 20000 else "(large)", "data_hex": hexcap(data),
                          "expected_trace": want[:4000], "implementation_trace": tr[:4000],
                          "first_difference": first_diff(want, tr), "replay_op": "decode"})
        return tr

    empty_msgs = lambda rec: [0, 0]
    for api, gen in GENS.items():
        n = per_api if api not in ("heartbeat", "leave", "coordinator") else per_api // 2
        if api in tie_down:      # tie (A) is down for this decoder: tie (B) carries it on an enlarged sample
            n *= 4
            ck.hist("cases_added_because_translator_tie_is_down_" + api, 3 * n // 4)
        elif "util" in tie_down:  # a reader every decoder uses: everything is enlarged, moderately
            n = n * 3 // 2
            ck.hist("cases_added_because_translator_tie_is_down_util", n // 3)
        for i in range(n):
            r = gen(g)
            for ver in ((VERSIONS[api][i % len(VERSIONS[api])],) if api in VERSIONS else (0,)):
                layout = min(ver, 2)
                data = spec_bytes(api, r, layout)
                spec_cases.append(case_spec(api, r, layout))
                spec_impl.append([0] + lp(data))
                wf_cases.append(case_wf(api, r, ver))
                add(api, r, ver, data, expected(api, r, ver, empty_msgs))
                if i % 5 == 0 and api not in ("subscription", "assignment"):
                    add("corr", r[0], 0, data, expected("corr", r[0]))
    # boundary shapes: longest strings, MAX_BROKERS, many partitions
    long_topic = b"x" * 32767
    add("produce", (1, [(long_topic, [(0, 0, 5, 6)])], 0), 0, None, expected("produce", (1, [(long_topic, [(0, 0, 5, 6)])], 0)), label="produce_32767_topic")
    add("join", (1, 0, 3, b"p" * 32767, "é".encode() * 16383, b"", [(b"m", b"x" * 70000)]), 0, None,
        expected("join", (1, 0, 3, b"p" * 32767, "é".encode() * 16383, b"", [(b"m", b"x" * 70000)])), label="join_long")
    for nb in (1024, 1025):
        r = (9, [(i, b"h", 9092) for i in range(nb)], [])
        add("metadata", r, 0, None, expected("metadata", r) if nb <= 1024 else [5], label="metadata_%d_brokers" % nb)
    r = (2, [(b"big", [(p, 0, p * 10, p) for p in range(300 if not thorough else 1500)])], 7)
    add("produce", r, 2, None, expected("produce", r), label="produce_many_partitions")
    # wide shapes for every counted loop: many topics, many partitions, many members / offsets / replicas / keys
    W = 40 if not thorough else 120
    wide = {
        "produce": (1, [(b"t%d" % i, [(i, 0, i, i)]) for i in range(W)] + [(b"w", [(p, g.err(), g.i64(), g.i64()) for p in range(W)])], 3),
        "fetch": (1, 2, [(b"t%d" % i, [(i, 0, i, None)]) for i in range(W)] + [(b"w", [(p, g.err(), g.i64(), b"") for p in range(W)])]),
        "offsets": (1, [(b"t%d" % i, [(i, 0, [i])]) for i in range(W)] + [(b"w", [(p, g.err(), [g.i64() for _ in range(W)]) for p in range(W // 4)])]),
        "commit": (1, [(b"t%d" % i, [(i, 0)]) for i in range(W)] + [(b"w", [(p, g.err()) for p in range(W)])]),
        "ofetch": (1, [(b"t%d" % i, [(i, i, None, 0)]) for i in range(W)] + [(b"w", [(p, g.i64(), g.oblob(), g.err()) for p in range(W)])]),
        "metadata": (1, [(i, b"h%d" % i, 9092 + i) for i in range(W)],
                     [(0, b"t%d" % i, [(0, 0, i, [i], [i])]) for i in range(W)]
                     + [(g.err(), b"w", [(g.err(), p, g.i32(), [g.i32() for _ in range(W // 2)], [g.i32() for _ in range(W // 3)]) for p in range(W)])]),
        "join": (1, 0, 5, b"range", b"leader", b"me", [(b"member-%d" % i, CL.rbytes(rnd, i)) for i in range(W)]),
        "apiversions": (1, 0, [(k, 0, k % 7) for k in range(W * 2)]),
        "subscription": (0, [b"topic-%d" % i for i in range(W)], b"ud"),
        "assignment": (0, [(b"topic-%d" % i, list(range(i))) for i in range(W)], None),
    }
    for api, r in wide.items():
        for ver in ((0, 2) if api in VERSIONS else (0,)):
            add(api, r, ver, None, expected(api, r, ver, empty_msgs), label=api + "_wide")
    if thorough:
        # exhaustive small scope: every (topics, partitions) shape up to 3x3 for the five topic/partition generators
        for api in ("produce", "offsets", "commit", "ofetch", "fetch"):
            for nt in range(4):
                for shape in ([[]] if nt == 0 else __import__("itertools").product(range(4), repeat=nt)):
                    def part(api=api):
                        return {"produce": lambda: (g.i32(), g.err(), g.i64(), g.i64()), "offsets": lambda: (g.i32(), g.err(), g.ints(g.i64, 3)),
                                "commit": lambda: (g.i32(), g.err()), "ofetch": lambda: (g.i32(), g.i64(), g.oblob(), g.err()),
                                "fetch": lambda: (g.i32(), g.err(), g.i64(), rnd.choice([None, b""]))}[api]()
                    topics = [(g.topic(), [part() for _ in range(k)]) for k in shape]
                    r = {"produce": (1, topics, 2), "fetch": (1, 2, topics)}.get(api, (1, topics))
                    for ver in ((0, 2) if api in VERSIONS else (0,)):
                        add(api, r, ver, None, expected(api, r, ver, empty_msgs), label=api + "_smallscope")

    # ================= 2. message sets inside Fetch responses
    def fetch_with(records, ver):
        return (rnd.randint(0, 99), 0, [(b"topic", [(0, 0, 1000, rec) for rec in records])])

    nsets = (45 if not thorough else 60 * scale) * (3 if ("msgset" in tie_down or "util" in tie_down) else 1)      # message-set tie (A) down: larger sample
    tree_cases, tree_impl = [], []
    for i in range(nsets):
        depth = rnd.choice([0, 1, 1, 2, 2] + ([3] if thorough else []))
        broker = rnd.random() < 0.8
        trees, _ = g_forest(g, depth, rnd.choice([0, 1, 100, 2 ** 40, rnd.getrandbits(30)]), None, broker)
        table = []
        data = KS.enc_kforest(trees, table=table)
        tree_cases.append([114] + oracle_ints([(2, a, 0, z) for a, z in table]) + case_forest(trees))
        tree_impl.append([0] + lp(data))
        if True:     # every generated forest goes to the well-formedness cases (offsets are drawn inside int64)
            wf_cases.append([214, DEPTH] + oracle_ints([(2, a, 0, z) for a, z in table] + [(1, z, 0, a) for a, z in table]) + case_forest(trees))
        ttr, torc = impl_tstypes(data)
        ts_cases.append([16, DEPTH] + list(torc) + lp(data))
        ts_impl.append(ttr)
        ver = rnd.choice([0, 2])
        r = fetch_with([data], ver)
        want_log = expected_log(trees)
        add("fetch", r, ver, None, expected("fetch", r, ver, lambda rec: want_log), label="fetch_set_%s_depth%d" % ("broker" if broker else "anyoffsets", depth))
    # the F-C05-3 shape, explicit: magic-1 gzip wrapper at offset 102 holding relative offsets 0,1,2 -> 100,101,102
    for mg in (0, 1):
        kids = [("leaf", (100 + i) if mg == 0 else i, (mg, 0, 7, b"k%d" % i, b"v%d" % i)) for i in range(3)]
        trees = [("leaf", 99, (mg, 0, 1, None, b"before")), ("wrap", 102, mg, 1, 9, None, kids), ("leaf", 103, (mg, 0, 2, None, b"after"))]
        r = fetch_with([KS.enc_kforest(trees)], 2)
        want_log = expected_log(trees)
        tr = add("fetch", r, 2, None, expected("fetch", r, 2, lambda rec: want_log), label="fetch_wrapper_at_102_magic%d" % mg)
        offs = [o for o, _ in CL.decoded_messages(fetch_dres(tr))[0]] if tr[-1] == 0 and tr[0] == 1 else None
        if offs != [99, 100, 101, 102, 103]:
            ck.violation({"kind": "messages inside a compressed wrapper are not reported with the offsets the protocol defines",
                          "magic": mg, "wrapper_offset": 102, "inner_offsets_stored": [k[1] for k in kids], "offsets_reported": offs,
                          "expected_offsets": [99, 100, 101, 102, 103], "api": "fetch", "api_version": 2, "op": 4,
                          "data_hex": spec_bytes("fetch", r, 2).hex(), "expected_trace": expected("fetch", r, 2, lambda rec: want_log),
                          "replay_op": "decode"})
    # sets written by afkak's own encoder: encode -> decode must be the identity on messages
    for i in range(nsets + 3):
        data, want, label, payloads = afkak_set(g, big=(i >= nsets))
        ver = rnd.choice([0, 2])
        r = fetch_with([data], ver)
        if want is not None:
            add("fetch", r, ver, None, expected("fetch", r, ver, lambda rec: want), label="fetch_afkakset_" + label)
        else:   # create_message_set re-reads the clock: check keys/values/format only
            tr = add("fetch", r, ver, None, None, label="fetch_afkakset_" + label)
            got, outcome = CL.decoded_messages(fetch_dres(tr)) if tr[0] == 1 else (None, None)
            if got is None or outcome != 0 or [(m[2], m[3]) for _, m in got] != [(k, v) for k, v in payloads]:
                ck.violation({"kind": "create_message_set(gzip) -> encode -> decode is not the identity on (key, value)",
                              "payloads": payloads, "decoded": got, "outcome": outcome, "api": "fetch", "api_version": ver, "op": 4,
                              "data_hex": spec_bytes("fetch", r, ver).hex(), "replay_op": "decode"})
    # several partitions with different sets in one response, null and empty record sets in between
    for i in range(10 * scale):
        recs, wants = [], []
        for _ in range(rnd.randint(2, 4)):
            x = rnd.random()
            if x < 0.2:
                recs.append(None)
                wants.append([0, 0])
            elif x < 0.35:
                recs.append(b"")
                wants.append([0, 0])
            else:
                trees, _ = g_forest(g, rnd.choice([0, 1]), rnd.randint(0, 500))
                recs.append(KS.enc_kforest(trees))
                wants.append(expected_log(trees))
        r = fetch_with(recs, 0)
        it = iter(wants)
        add("fetch", r, 0, None, expected("fetch", r, 0, lambda rec: next(it)), label="fetch_multi_partition")

    # ================= 2a'. KIP-31 from the broker's side: a dense format-1 batch written at `base`, then compacted
    # (a random subset of the inner messages removed, the first one included; survivors keep their relative offsets,
    # the wrapper carries the absolute offset of the last survivor).  The expectation is the list of ABSOLUTE offsets
    # the generator chose - no offset formula on the expectation side.
    batch_cases, batch_impl = [], []
    for i in range(40 * scale):
        mgc = 1 if i % 4 else 0
        base = rnd.choice([0, 1, 100, 2 ** 40, rnd.getrandbits(30), I64[1] - 20])
        n = rnd.randint(1, 8)
        dense = [(base + j, g_kmsg(g, mgc)) for j in range(n)]
        keep = [x for x in dense if rnd.random() < 0.6] if i % 3 else dense
        if not keep:
            keep = [rnd.choice(dense)]
        attr, wts, wkey = 1 | rnd.choice([0, 0, 8]), rnd.choice([0, 5, 1500000000000]), rnd.choice([None, None, b"wk"])
        batch = KS.broker_batch_v1(base, attr, wts, wkey, keep) if mgc == 1 else KS.broker_batch_v0(attr, wts, wkey, keep)
        before = [("leaf", base - 1, g_kmsg(g, mgc))] if base > 0 and rnd.random() < 0.5 else []
        after = [("leaf", keep[-1][0] + 1, g_kmsg(g, mgc))] if rnd.random() < 0.5 and keep[-1][0] < I64[1] else []
        trees = before + [batch] + after
        abs_log = [(t[1], t[2]) for t in before] + keep + [(t[1], t[2]) for t in after]
        table = []
        data = KS.enc_kforest(trees, table=table)
        if mgc == 1:      # the Coq transcription of the broker-side definition emits the same bytes
            batch_cases.append([215, base, attr, wts] + olp(wkey) + [len(keep)]
                               + sum(([a, m[0], m[1], m[2]] + olp(m[3]) + olp(m[4]) for a, m in keep), [])
                               + oracle_ints([(2, a, 0, z) for a, z in table]))
            batch_impl.append([0] + lp(KS.enc_ktree(batch)))
        want_log = [len(abs_log)] + sum(([o] + kmsg_ints(m) for o, m in abs_log), []) + [0]
        if KS.log_of_forest(trees) != abs_log:
            ck.violation({"kind": "harness/kafkaspec_resp.py: log_of disagrees with the broker-side definition of a compacted batch",
                          "trees": repr(trees)[:2000], "absolute_log": repr(abs_log)[:2000]}, no_input=True)
        ver = rnd.choice([0, 2])
        r = fetch_with([data], ver)
        add("fetch", r, ver, None, expected("fetch", r, ver, lambda rec: want_log),
            label="fetch_batch_magic%d_%s" % (mgc, "compacted" if len(keep) < n else "dense"))
        ck.hist("batch_first_removed" if keep[0][0] != base else "batch_first_kept")
    # an EMPTY wrapper of either format between two plain messages (nothing from it, no exception)
    for mg in (0, 1):
        trees = [("leaf", 5, (mg, 0, 1, None, b"a")), ("wrap", 7, mg, 1, 0, None, []), ("leaf", 8, (mg, 0, 2, b"k", None))]
        r = fetch_with([KS.enc_kforest(trees)], 0)
        want_log = expected_log(trees)
        add("fetch", r, 0, None, expected("fetch", r, 0, lambda rec: want_log), label="fetch_empty_wrapper_magic%d" % mg)
    # LARGE sets: values of 32767 / 32768 / 65536 bytes; a gzip wrapper whose inner set is > 64 KiB and compresses to
    # > 16 KiB (random values) - a codec that stops after one buffer delivers fewer messages than the generator stored
    for mg in (0, 1):
        big = [("leaf", 10 + j, (mg, 0, 7, b"k", CL.rbytes(rnd, size))) for j, size in enumerate((32767, 32768, 65536))]
        r = fetch_with([KS.enc_kforest(big)], 2)
        want_log = expected_log(big)
        add("fetch", r, 2, None, expected("fetch", r, 2, lambda rec: want_log), label="fetch_big_values_magic%d" % mg)
        nmsg, vsize = (80, 1024) if not thorough else (1024, 1024)
        kids = [("leaf", j if mg == 1 else 1000 + j, (mg, 0, j, None, CL.rbytes(rnd, vsize))) for j in range(nmsg)]
        trees = [("wrap", 1000 + nmsg - 1, mg, 1, 0, None, kids), ("leaf", 1000 + nmsg, (mg, 0, 0, None, b"after-the-big-batch"))]
        table = []
        data = KS.enc_kforest(trees, table=table)
        ck.cov.setdefault("large_sets", []).append({"magic": mg, "inner_bytes": len(table[0][0]), "compressed_bytes": len(table[0][1]), "messages": nmsg})
        r = fetch_with([data], 2)
        abs_log = [(1000 + j, k[2]) for j, k in enumerate(kids)] + [(1000 + nmsg, trees[1][2])]
        want_log = [len(abs_log)] + sum(([o] + kmsg_ints(m) for o, m in abs_log), []) + [0]
        add("fetch", r, 2, None, expected("fetch", r, 2, lambda rec: want_log), label="fetch_large_gzip_batch_magic%d" % mg)
    # multi-member gzip streams (RFC 1952 allows a wrapper value to be several gzip members back to back; a decoder that
    # stops after the first member silently loses the later messages): the inner set is split at arbitrary byte positions
    def multi_member(inner):
        if len(inner) < 2:
            return KS.gzip_compress(inner)
        cuts = sorted(rnd.sample(range(1, len(inner)), min(rnd.randint(1, 3), len(inner) - 1)))
        return b"".join(KS.gzip_compress(inner[a:b]) for a, b in zip([0] + cuts, cuts + [len(inner)]))
    for i in range(8 * scale):
        mg = i % 2
        n = rnd.randint(2, 6)
        base = rnd.choice([0, 50, 2 ** 33])
        kids = [("leaf", j if mg == 1 else base + j, g_kmsg(g, mg)) for j in range(n)]
        trees = [("wrap", base + n - 1, mg, 1, 0, None, kids), ("leaf", base + n, g_kmsg(g, mg))]
        data = KS.enc_kforest(trees, gz=multi_member)
        abs_log = [(base + j, k[2]) for j, k in enumerate(kids)] + [(base + n, trees[1][2])]
        want_log = [len(abs_log)] + sum(([o] + kmsg_ints(m) for o, m in abs_log), []) + [0]
        r = fetch_with([data], 2)
        add("fetch", r, 2, None, expected("fetch", r, 2, lambda rec: want_log), label="fetch_multi_member_gzip_magic%d" % mg)
    # the same responses consumed differently: outer generator exhausted first, .messages drained later in reverse order
    late = 0
    for i, (api, ver, data, want, label) in enumerate(dec_meta):
        if api == "fetch" and want is not None and len(data) < 200000 and (label.startswith("fetch_multi") or i % 7 == 0):
            tr2 = impl_fetch_late(data, ver)
            late += 1
            if tr2 is not None and tr2 != dec_impl[i]:
                ck.violation({"kind": "FetchResponse.messages yields different messages when consumed after the outer generator is exhausted",
                              "api": "fetch", "api_version": ver, "op": 4, "data_hex": hexcap(data), "expected_trace": dec_impl[i][:4000],
                              "late_trace": tr2[:4000], "first_difference": first_diff(dec_impl[i], tr2), "replay_op": "decode"})
    ck.cov["late_consumption_cases"] = late

    # ================= 2b. afkak's own ENCODER steps vs Model.MsgSet (runner `codec`): ties the encoder model the
    # theorems C05_afkak_* speak about (_encode_message_set, create_gzip_message) to the real functions
    enc_cases, enc_impl = [], []
    for i in range(50 * scale):
        magic = rnd.choice([0, 1])
        base, step = rnd.choice([(1600000000000, 1), (0, 0), (-5, 3), (2 ** 50, 2)])
        msgs = []
        for _ in range(rnd.randint(0, 4)):
            if magic == 1:
                ts = rnd.choice([None, None, 0, -1, 1, 77, I64[0], I64[1], rnd.getrandbits(41)])
                msgs.append(CL.mk_msg(1, rnd.choice([0, 0, 8, 0xF0]), g.oblob(6), g.oblob(12), ts))
            else:
                msgs.append(CL.mk_msg(0, rnd.choice([0, 0, 0xF0]), g.oblob(6), g.oblob(12), None))
        off = rnd.choice([None, 0, 1, 100, 2 ** 40, I64[1] - 2, I64[1]])
        enc_cases.append(CL.case_encode_set(base, step, msgs, off, magic))
        enc_impl.append(CL.impl_encode_set(base, step, msgs, off, magic))
        ck.hist("encode_set_magic%d" % magic)
        if msgs:
            wm = rnd.choice([0, 1])
            tr, orc = CL.impl_create_wrapper(base, step, msgs, 1, wm)
            enc_cases.append(CL.case_create_wrapper(orc, base, step, msgs, 1, wm))
            enc_impl.append(tr)
            ck.hist("create_gzip_message_magic%d" % wm)
    dE, moE = ck.correspond(CL.MODEL, CL.MODULE, enc_cases, enc_impl,
                            "KafkaCodec._encode_message_set / create_gzip_message vs Model.MsgSet (encoder side of C05_afkak_*)",
                            nontrivial=lambda c, o: len(o) > 3, describe=describe)
    for i in dE[:3]:
        ck.violation({"kind": "implementation and model ENCODE the same messages differently", "correspondence": "corr:codec:encode_set",
                      "case": enc_cases[i][:300], "implementation_trace": enc_impl[i][:300], "model_trace": moE[i][:300],
                      "first_difference": first_diff(moE[i], enc_impl[i]),
                      "theorems_no_longer_tied": ["C05_afkak_plain_roundtrip", "C05_afkak_gzip_roundtrip", "C05_afkak_gzip_nested_roundtrip"]},
                     no_input=True)

    # ================= 2c. the oracle hypothesis of the message-set theorems, observed on the real codec functions:
    # gzip_decode(gzip_encode(x)) == x, gzip_decode(<independent gzip of x>) == x, outputs are bytes
    from afkak.codec import gzip_decode as real_gzip_decode, gzip_encode as real_gzip_encode, has_snappy
    law = 0
    for i in range(40 * scale):
        x = rnd.choice([b"", b"\x00", bytes(rnd.randint(1, 2000)), CL.rbytes(rnd, rnd.randint(1, 400)),
                        CL.rbytes(rnd, rnd.randint(1, 20)) * rnd.randint(1, 50)])
        if i < 6:      # sizes beyond every internal buffer: 16 KiB +- 1, 64 KiB, 1 MiB, incompressible and compressible
            x = [CL.rbytes(rnd, 16383), CL.rbytes(rnd, 16385), CL.rbytes(rnd, 65536), CL.rbytes(rnd, 1 << 20),
                 bytes(1 << 20), CL.rbytes(rnd, 100) * 700][i]
        z = real_gzip_encode(x)
        h = len(x) // 2
        ok = (isinstance(z, bytes) and real_gzip_decode(z) == x and real_gzip_decode(KS.gzip_compress(x)) == x
              and real_gzip_decode(KS.gzip_compress(x[:h]) + KS.gzip_compress(x[h:])) == x)        # two members
        law += 1
        if not ok:
            ck.violation({"kind": "compression round-trip law (hypothesis of C05_msgset_roundtrip / C05_afkak_gzip_roundtrip) fails on the real gzip codec",
                          "input_hex": x.hex() if len(x) <= 20000 else "", "input_len": len(x), "replay_op": "gzip_law"})
    for a in ORACLE_AUDIT[:3]:
        ck.violation(dict(a, kind="a codec answer recorded from the real code (and handed to the model as its oracle) is not what Python's gzip module computes",
                          replay_op="none"))
    ck.cov["oracle_law_observed"] = {"gzip_roundtrips": law, "largest_input": 1 << 20, "recorded_answers_refuted_by_stdlib": len(ORACLE_AUDIT),
                                     "snappy_available": bool(has_snappy())}
    ck.hist("gzip_law", law)

    # ================= 3. hostile stream: compared with the model only
    nwf = len(dec_cases)
    hostile = []
    for api, gen in GENS.items():
        for i in range(6 * scale):
            r = gen(g)
            ver = rnd.choice(VERSIONS.get(api, (0,)))
            data = spec_bytes(api, r, min(ver, 2))
            for d in mutations(rnd, data, 6):
                hostile.append((api, ver, d, "mutated"))
            with hostile_grammar():
                r2 = null_some_strings(rnd, r)
                hostile.append((api, ver, spec_bytes(api, r2, min(ver, 2)), "null_or_nonascii_strings"))
        # every truncation of one small response
        r = gen(g)
        data = spec_bytes(api, r, 0)[:120]
        for cut in range(len(data)):
            hostile.append((api, 0, data[:cut], "truncated"))
    # api_version values outside {0, >= 2}: the v1 layouts (see notes) and Fetch with api_version 1
    for ver in (1,):
        r = g_produce(g)
        hostile.append(("produce", 1, spec_bytes("produce", r, 1), "produce_v1_bytes_api_version_1"))
        hostile.append(("fetch", 1, spec_bytes("fetch", g_fetch(g), 1), "fetch_v1_bytes_api_version_1"))
    # message sets: truncated / corrupted inside a fetch response (C12 looks at these in depth)
    for i in range(20 * scale):
        trees, _ = g_forest(g, rnd.choice([0, 1, 2]), rnd.randint(0, 1000))
        s = KS.enc_kforest(trees)
        for d in mutations(rnd, s, 3):
            hostile.append(("fetch", 0, spec_bytes("fetch", (1, 0, [(b"t", [(0, 0, 5, d)])]), 0), "fetch_damaged_set"))
    # CRC-valid messages the grammar does not produce: codec numbers 2 (snappy, not installed), 3 and the undefined
    # 4..7 (afkak masks two bits: 4 and 0xFC are read as "uncompressed"), a wrapper with a null value, a wrapper whose
    # decompressed set ends in a partial entry, a wrapper holding garbage
    for mg in (0, 1):
        leaf = ("leaf", 3, (mg, 0, 1, b"k", b"v"))
        odd = [[("leaf", 1, (mg, a, 2, b"k", b"v"))] for a in (4, 0xFC, 5, 2, 3, 6, 7)]
        odd += [[("wrap", 9, mg, a, 0, None, [leaf])] for a in (2, 3, 6, 7)]
        for trees in odd:
            hostile.append(("fetch", 0, spec_bytes("fetch", (1, 0, [(b"t", [(0, 0, 5, KS.enc_kforest(trees))])]), 0), "undefined_or_unavailable_codec"))
        nullw = KS.enc_entry(9, KS.enc_kmsg((mg, 1, 0, None, None)))
        cut = KS.enc_kforest([("wrap", 9, mg, 1, 0, None, [leaf, leaf])], gz=lambda inner: KS.gzip_compress(inner[:-5]))
        junk = KS.enc_kforest([("wrap", 9, mg, 1, 0, None, [leaf])], gz=lambda inner: b"not gzip at all")
        for d in (nullw, KS.enc_kforest([leaf]) + nullw, cut, junk):
            hostile.append(("fetch", 0, spec_bytes("fetch", (1, 0, [(b"t", [(0, 0, 5, d)])]), 0), "odd_wrapper"))
    for api, ver, d, label in hostile:
        add(api, None, ver, d, None, label=api + "_" + label, monitor=False)

    # ================= 4. correspondences
    diffs, mo = correspond_chunks(ck, MODEL, MODULE, spec_cases + tree_cases, spec_impl + tree_impl,
                              "grammar encoder harness/kafkaspec_resp.py vs Model.KafkaSpecResp (bytes identical)",
                              nontrivial=lambda c, o: len(o) > 6, describe=describe)
    for i in diffs[:2]:
        ck.violation({"kind": "the two transcriptions of the Kafka grammar disagree (harness/kafkaspec_resp.py vs coq/Model/KafkaSpecResp.v)",
                      "correspondence": "corr:resp:spec-encoder", "case": (spec_cases + tree_cases)[i][:200],
                      "python": (spec_impl + tree_impl)[i][:200], "coq": mo[i][:200],
                      "theorems_no_longer_tied": ["all C05_* (the encoder the theorems speak about is not the one that produced the test inputs)"]},
                     no_input=True)

    dW, moW = correspond_chunks(ck, MODEL, MODULE, wf_cases, [[1, 1]] * len(wf_cases),
                                "Coq wf_ predicate holds and trace(decode(enc r)) = trace(view r) on the generated responses / forests (runner ops 201..214)",
                                nontrivial=lambda c, o: True, describe=describe)
    for i in dW[:3]:
        ck.violation({"kind": "a generated response is outside the theorem's wf_ predicate, or the Coq view_ differs from the Coq decoder on it",
                      "correspondence": "corr:resp:wf_view", "case": wf_cases[i][:300], "answer [wf, same]": moW[i],
                      "theorems_no_longer_tied": ["the C05 theorem of runner op %d - 200 (the generator does not exercise its hypothesis)" % wf_cases[i][0]]},
                     no_input=True)
    dB, moB = ck.correspond(MODEL, MODULE, batch_cases, batch_impl,
                            "broker-side KIP-31 definition: kafkaspec_resp.broker_batch_v1 vs Model.KafkaSpecResp.broker_batch_v1 (bytes identical)",
                            nontrivial=lambda c, o: len(o) > 6, describe=describe)
    for i in dB[:2]:
        ck.violation({"kind": "the two transcriptions of the broker-side KIP-31 definition disagree", "correspondence": "corr:resp:broker_batch",
                      "case": batch_cases[i][:300], "python": batch_impl[i][:200], "coq": moB[i][:200],
                      "theorems_no_longer_tied": ["C05_kip31_batch_recovered"]}, no_input=True)
    dT, moT = ck.correspond(MODEL, MODULE, ts_cases, ts_impl,
                            "Message.timestamp_type of decoded messages vs Model.RespView.py_decoded (documented: always 0)",
                            nontrivial=lambda c, o: len(o) > 2, describe=describe)
    for i in dT[:2]:
        ck.violation({"kind": "decoded Message.timestamp_type differs from the model (documented invariant: 0)", "correspondence": "corr:resp:timestamp_type",
                      "case": ts_cases[i][:300], "implementation_trace": ts_impl[i][:100], "model_trace": moT[i][:100],
                      "theorems_no_longer_tied": ["C05_timestamp_type_roundtrip"]}, no_input=True)

    def nontrivial(c, o):
        return len(o) > 2 and (o[0] > 0)

    d1, mo1 = correspond_chunks(ck, MODEL, MODULE, dec_cases[:nwf], dec_impl[:nwf],
                            "KafkaCodec.decode_* on well-formed responses vs Model.Responses", nontrivial=nontrivial, describe=describe)
    d2, mo2 = correspond_chunks(ck, MODEL, MODULE, dec_cases[nwf:], dec_impl[nwf:],
                            "KafkaCodec.decode_* on hostile bytes (truncated, mutated, nulls, bad counts) vs Model.Responses",
                            nontrivial=lambda c, o: True, describe=describe)
    mo_all = mo1 + mo2
    for i in (d1 + [nwf + j for j in d2]):
        api, ver, data, want, label = dec_meta[i]
        if want is not None and dec_impl[i] != want:
            continue          # already reported by the monitor with a concrete response
        ck.violation({"kind": "implementation and proved model decode the same bytes differently",
                      "correspondence": "corr:resp:decode_" + api, "label": label, "api": api, "api_version": ver, "op": API_OP[api],
                      "data_hex": data.hex() if len(data) < 4000 else data[:4000].hex() + "...", "implementation_trace": dec_impl[i][:300],
                      "model_trace": mo_all[i][:300], "first_difference": first_diff(mo_all[i], dec_impl[i]),
                      "theorems_no_longer_tied": ["C05_" + api], "replay_op": "decode_model"},
                     no_input=(want is None))
    # the monitor over the MODEL's traces as well (the theorems, sampled)
    for i in range(nwf):
        api, ver, data, want, label = dec_meta[i]
        if want is not None and mo_all[i] != want and dec_impl[i] == want:
            ck.violation({"kind": "model trace differs from the encoded values (model/runner defect)", "api": api, "label": label,
                          "model_trace": mo_all[i][:300], "expected_trace": want[:300]}, no_input=True)

    # ================= 5. notes (inside no theorem's hypotheses; recorded, never a violation)
    from afkak.kafkacodec import KafkaCodec as K
    v1 = KS.enc_produce(1, (7, [(b"t", [(3, 0, 42, 0)])], 0))
    t1, _ = impl_decode(3, v1, 1)
    f1, _ = impl_decode(4, KS.enc_fetch(1, (7, 0, [])), 1)
    notes.append({"note": "Produce v1 response decoded with api_version=1 (v2 layout is used)", "data_hex": v1.hex(), "trace": t1,
                  "coq": "C05_produce_v1_refuted"})
    notes.append({"note": "Fetch v1 response decoded with api_version=1 (no branch assigns num_topics)", "trace": f1,
                  "coq": "C05_fetch_v1_refuted"})
    ck.cov["notes"] = notes
    ck.cov["error_codes_exercised"] = len(g.codes_used)
    ck.cov["error_codes_defined_all_used"] = all(c in g.codes_used for c in range(-1, 120))

    # verdict of the two ties: a decoder whose tie (A) is down and whose correspondence (tie B) is not clean either
    ndiff = sum(v["differences"] for v in ck.cov["correspondence"].values())
    ck.cov["translator_tie"]["consequence"] = ("tie (B) carries the decoders listed under down / not_yet_covered alone: %d differences over all "
                                               "correspondences of this run" % ndiff)
    if tie_down and ndiff and not ck.violations:
        ck.violation({"kind": "translator tie down and the differential correspondence is not clean", "decoders": sorted(tie_down),
                      "differences": ndiff}, no_input=True)
    if thorough:
        ok_gen, _ = ck.make_soft("Props/C05gen.vo")
        # other builders recompile shared .vo files while a long run is in progress: bring this property's cone up to
        # date again right before the independent checker reads it
        vlib.build_all([MODEL, CL.MODEL], targets=["Props/C05.vo"])
        ck.coqchk(["AV.Props.C05"] + (["AV.Props.C05gen"] if ok_gen else []))
    ck.cov["rule"] = ("seeded generator (random.Random(VERIF_SEED)) of abstract responses for the 13 APIs + 2 embedded consumer-protocol "
                      "structures: 0..n topics/partitions/members/brokers (n up to 8; 300 partitions, 1024/1025 brokers, 32767-byte strings "
                      "once), error codes walking through -1..119 plus unknown/boundary codes, 30% boundary integers, null/empty strings "
                      "and bytes where the grammar allows, non-ASCII member ids, duplicate dict keys; message sets of both formats "
                      "as trees of gzip wrappers (depth <= 2 quick, <= 3 thorough) with broker-style and arbitrary offsets and sets "
                      "written by afkak's own encoder; a hostile stream (truncation at every cut, mutated counts/bytes, nulls and "
                      "non-ASCII where not allowed). A case is non-trivial if the decoder returned/yielded at least one value; "
                      "distinct = distinct canonical case lines.")
    ck.assumptions += [
        "hand-written Gallina model Model/Responses.v (+ Model/MsgSet.v, Model/Prim.v, Model/Crc.v) stands for afkak/kafkacodec.py decoders and afkak/_util.py readers (tie = this run's correspondence, not proof)",
        "Model/KafkaSpecResp.v and harness/kafkaspec_resp.py are two hand transcriptions of the Kafka protocol guide's response grammar (validated against each other byte for byte on every generated response; not against a real broker)",
        "gzip is an oracle: the theorems assume gz_dec (gz x) = Ok x for the compression function used by the encoder (hypothesis of the theorem, never an axiom); the run feeds the model the recorded answers of the real gzip calls; snappy is not installed and not exercised",
        "CPython struct/zlib.crc32/bytes.decode modelled by Model.Prim/Model.Crc (checked by correspondence)",
        "extraction: ExtrOcamlBasic only; OCaml 4.13.1 ocamlopt; a sample of the case lines is re-evaluated in Coq by vm_compute",
    ]
    ck.cov["trusted_base"] += ["correspondence harness harness/props/C05.py + harness/props/codec_lib.py + harness/vlib.py",
                               "harness/kafkaspec_resp.py (independent grammar encoder)",
                               "extracted OCaml runner `resp` (ExtrOcamlBasic) cross-checked by vm_compute sample"]


def fetch_dres(tr):
    """the DRES part of the trace of a Fetch response with exactly one partition of topic b"topic" """
    return tr[1 + 6 + 3:-1]


def first_diff(a, b):
    for i, (x, y) in enumerate(zip(a, b)):
        if x != y:
            return {"index": i, "expected": x, "got": y}
    return {"index": min(len(a), len(b)), "expected_len": len(a), "got_len": len(b)}


def replay(rp):
    import json
    op = rp.get("replay_op")
    if op in ("decode", "decode_model") and not str(rp.get("data_hex", "")).endswith("..."):
        data = bytes.fromhex(rp["data_hex"])
        tr, orc = impl_decode(rp["op"], data, rp.get("api_version", 0))
        print("api", rp.get("api"), "api_version", rp.get("api_version", 0), "bytes", len(data))
        print("implementation trace now:", tr[:400])
        want = rp.get("expected_trace") or rp.get("model_trace")
        print("expected              :", (want or [])[:400])
        ok = want is not None and tr == want
        print("verdict:", "decodes to the encoded values" if ok else "VIOLATION reproduced" if want is not None else "no expectation recorded")
        return 0 if ok else 1
    if op == "tstype" and not str(rp.get("data_hex", "")).endswith("..."):
        del TSTYPES[:]
        impl_decode(rp["op"], bytes.fromhex(rp["data_hex"]), rp.get("api_version", 0))
        bad = [t for t in TSTYPES if t[2] != 0]
        print("decoded (magic, attributes, timestamp_type):", TSTYPES[:20])
        print("verdict:", "VIOLATION reproduced" if bad else "timestamp_type is the documented 0")
        return 1 if bad else 0
    if op == "gzip_law":
        from afkak.codec import gzip_decode, gzip_encode
        x = bytes.fromhex(rp["input_hex"])
        ok = gzip_decode(gzip_encode(x)) == x
        print("gzip_decode(gzip_encode(x)) == x:", ok)
        return 0 if ok else 1
    print(json.dumps(rp, indent=1, default=repr)[:6000])
    return 1
