# Composed stream for C02 / C03: the REAL afkak.consumer.Consumer over the REAL afkak.client.KafkaClient; only the broker
# layer is scripted (KafkaClient._get_brokerclient / _send_bootstrap_request hand out ScriptedBroker objects whose
# makeRequest() parks the request bytes until the driver answers them).  Requests are parsed and answers encoded by code
# written here from the Kafka protocol guide (struct + harness/kafkaspec_resp.py), never by afkak.  The simulated cluster
# is consumer_log_lib.PartitionLog (ground-truth log) + an independent coordinator offset store that records an offset
# when, and only when, it answers the OffsetCommit request with error 0.
#
# Monitors (over what the application can see): every message handed to the processor against the log; every value a
# commit() Deferred fires with and every value of last_committed_offset against the set of offsets the store
# acknowledged with error 0 (or reported by OffsetFetch); commit request offsets against the last successfully processed
# offset; crash / restart from OFFSET_COMMITTED against the store.
import struct

import kafkaspec_resp as KS
from props import consumer_lib as CL
from props import consumer_log_lib as LL

TOPIC, PART, GROUP = "t", 3, "grp"
K_FETCH, K_OFFSETS, K_METADATA, K_COMMIT, K_OFETCH, K_COORD, K_APIV = 1, 2, 3, 8, 9, 10, 18
# error codes a group coordinator / partition leader may answer with
GROUP_ERRS = [14, 14, 14, 15, 15, 16, 16, 22, 25, 27, 12, 28, 30, 7, -1]
FETCH_ERRS = [3, 5, 6, 7, 9]


class Rd(object):
    def __init__(self, data, pos=0):
        self.d, self.p = data, pos

    def u(self, fmt):
        n = struct.calcsize(fmt)
        v = struct.unpack(fmt, self.d[self.p:self.p + n])
        self.p += n
        return v if len(v) > 1 else v[0]

    def s(self):
        n = self.u(">h")
        if n < 0:
            return None
        v = self.d[self.p:self.p + n]
        self.p += n
        return v.decode()


def parse_request(frame):
    """request bytes (no length prefix) -> dict(key, ver, corr, ...) for the APIs a Consumer uses"""
    r = Rd(frame)
    key, ver, corr = r.u(">hhi")
    r.s()
    out = {"key": key, "ver": ver, "corr": corr}
    if key == K_FETCH:
        r.u(">iii")
        ps = []
        for _ in range(r.u(">i")):
            t = r.s()
            for _ in range(r.u(">i")):
                p, off, mx = r.u(">iqi")
                ps.append((t, p, off, mx))
        out["parts"] = ps
    elif key == K_OFFSETS:
        r.u(">i")
        ps = []
        for _ in range(r.u(">i")):
            t = r.s()
            for _ in range(r.u(">i")):
                p, tm, mx = r.u(">iqi")
                ps.append((t, p, tm, mx))
        out["parts"] = ps
    elif key == K_METADATA:
        out["topics"] = [r.s() for _ in range(r.u(">i"))]
    elif key == K_COORD:
        out["group"] = r.s()
    elif key == K_OFETCH:
        out["group"] = r.s()
        ps = []
        for _ in range(r.u(">i")):
            t = r.s()
            for _ in range(r.u(">i")):
                ps.append((t, r.u(">i")))
        out["parts"] = ps
    elif key == K_COMMIT:
        out["group"] = r.s()
        if ver >= 1:
            out["generation"] = r.u(">i")
            out["member"] = r.s()
        if ver >= 2:
            r.u(">q")
        ps = []
        for _ in range(r.u(">i")):
            t = r.s()
            for _ in range(r.u(">i")):
                if ver == 1:
                    p, off, _ts = r.u(">iqq")
                else:
                    p, off = r.u(">iq")
                r.s()
                ps.append((t, p, off))
        out["parts"] = ps
    return out


class BrokerReq(object):
    def __init__(self, rid, node, frame, d):
        self.rid, self.node, self.frame, self.d = rid, node, frame, d
        self.req = parse_request(frame)
        self.done = False


class ScriptedBroker(object):
    def __init__(self, run, node):
        self.run, self.node_id = run, node
        self.host, self.port = "broker%d" % node, 9092

    def __repr__(self):
        return "<ScriptedBroker %d>" % self.node_id

    def connected(self):
        return True

    def updateMetadata(self, bm):
        pass

    def disconnect(self):
        pass

    def close(self):
        from twisted.internet.defer import succeed
        return succeed(None)

    def makeRequest(self, correlationId, request, expectResponse=True):
        return self.run.broker_request(self.node_id, request)


class ConnErr(Exception):
    pass


class Run(object):
    """one Consumer life over the real client.  log: LL.PartitionLog, store: LL.OffsetStore (shared across lives)"""

    def __init__(self, rnd, log, store, acn=0, acs=0, reset=0, maxatt=0, buf=4096, gen=-1, leader=1, coord=2):
        from twisted.internet.task import Clock
        from afkak.client import KafkaClient
        import afkak.consumer as AC
        CL.quiet()
        self.rnd, self.log, self.store = rnd, log, store
        self.leader, self.coord = leader, coord
        self.clock = Clock()
        self.reqs = {}
        self.nrid = 0
        self.plan = []
        self.procs = []
        self.calls = []              # (step, offsets, overlap)
        self.delivered = []
        self.values_seen = []
        self.commit_results = []     # (step, ok, value-or-failure-name) of every commit() Deferred (also OperationInProgress's)
        self.start_result = None
        self.lc_seen = []            # (step, last_committed_offset) whenever it changes
        self.lp_seen = []
        self.commit_reqs = []        # (step, offset sent, generation, member)
        self.acked = []              # offsets the store acknowledged with error 0
        self.reported = []           # offsets the store reported through OffsetFetch
        self.fetches = []            # (step, offset, max_bytes)
        self.escaped = None
        self.double_commit = None
        self.step_no = 0
        self.log_events = []         # what the driver did (for replay files)
        self.done_blocks = []        # offsets whose processing completed successfully
        real = KafkaClient("bootstrap:9092", reactor=self.clock, timeout=5000, enable_protocol_version_discovery=False)
        real._get_brokerclient = self._get_brokerclient
        real._send_bootstrap_request = lambda request: self.broker_request(-1, request)
        self.real = real
        self.brokers = {}
        self.consumer = AC.Consumer(
            real, TOPIC, PART, self.processor, consumer_group=GROUP,
            auto_commit_every_n=acn, auto_commit_every_ms=(700 if acs else 0),
            buffer_size=buf, request_retry_init_delay=0.5, request_retry_max_delay=1.7,
            request_retry_max_attempts=maxatt, auto_offset_reset={0: None, 1: CL.OFFSET_EARLIEST, 2: CL.OFFSET_LATEST}[reset],
            commit_consumer_id="member-7", commit_generation_id=gen)
        self.last_lc = self.last_lp = None

    # ------------------------------------------------------------ scripted cluster
    def _get_brokerclient(self, node_id):
        if node_id not in self.brokers:
            self.brokers[node_id] = ScriptedBroker(self, node_id)
        return self.brokers[node_id]

    def broker_request(self, node, frame):
        from twisted.internet.defer import Deferred
        rid = self.nrid
        self.nrid += 1
        br = BrokerReq(rid, node, bytes(frame), None)
        br.d = Deferred(lambda dd, br=br: setattr(br, "done", True))
        self.reqs[rid] = br
        k = br.req["key"]
        if k == K_COMMIT:
            [(t, p, off)] = br.req["parts"]
            self.commit_reqs.append((self.step_no, off, br.req.get("generation"), br.req.get("member")))
            others = [r for r in self.reqs.values() if r is not br and r.req["key"] == K_COMMIT and not r.done and not r.d.called]
            if others and self.double_commit is None:
                self.double_commit = (self.step_no, rid, others[0].rid)
        elif k == K_FETCH:
            [(t, p, off, mx)] = br.req["parts"]
            self.fetches.append((self.step_no, off, mx))
        return br.d

    def pending(self):
        return [r for r in self.reqs.values() if not r.done and not r.d.called]

    def answer(self, br, err=0, garble=False):
        """the broker's reply to `br` (honest unless an error code is forced): response bytes through the real decoder"""
        q = br.req
        k, corr = q["key"], q["corr"]
        br.done = True
        if k == K_METADATA:
            brokers = [(1, b"broker1", 9092), (2, b"broker2", 9092)]
            topics = [(0, TOPIC.encode(), [(0, PART, self.leader, [1, 2], [1, 2])])]
            data = KS.enc_metadata((corr, brokers, topics))
        elif k == K_COORD:
            data = KS.enc_coordinator((corr, err, self.coord, b"broker%d" % self.coord, 9092))
        elif k == K_OFFSETS:
            [(t, p, tm, mx)] = q["parts"]
            off = self.log.start if tm == CL.OFFSET_EARLIEST else self.log.end
            data = KS.enc_offsets((corr, [(t.encode(), [(p, err, [off] if not err else [])])]))
        elif k == K_OFETCH:
            [(t, p)] = q["parts"]
            c = self.store.committed
            if not err and c is not None:
                self.reported.append(c)
            data = KS.enc_ofetch((corr, [(t.encode(), [(p, -1 if (c is None or err) else c, b"", err)])]))
        elif k == K_COMMIT:
            [(t, p, off)] = q["parts"]
            if not err:
                self.store.committed = off          # the ONLY place the store changes
                self.store.acked.append(off)
                self.acked.append(off)
            data = KS.enc_commit((corr, [(t.encode(), [(p, err)])]))
        elif k == K_FETCH:
            [(t, p, off, mx)] = q["parts"]
            if err:
                data = KS.enc_fetch(q["ver"], (corr, 0, [(t.encode(), [(p, err, -1, b"")])]))
            else:
                r = self.log.fetch(off, mx)
                if r[0] == "oor":
                    data = KS.enc_fetch(q["ver"], (corr, 0, [(t.encode(), [(p, 1, -1, b"")])]))
                else:
                    data = KS.enc_fetch(q["ver"], (corr, 0, [(t.encode(), [(p, 0, self.log.end, r[1])])]))
        else:
            raise ValueError("unexpected request key %r" % k)
        br.d.callback(data)

    def fail(self, br):
        from twisted.python.failure import Failure
        from afkak.common import KafkaUnavailableError
        br.done = True
        br.d.errback(Failure(KafkaUnavailableError("scripted connection loss")))

    # ------------------------------------------------------------ application side
    def processor(self, consumer, msgs):
        from twisted.internet.defer import Deferred
        offs = [m.offset for m in msgs]
        self.procs = [d for d in self.procs if not d[0].called]
        self.calls.append((self.step_no, offs, len(self.procs) > 0))
        self.delivered.extend(offs)
        for m in msgs:
            self.values_seen.append((m.offset, m.message.key, m.message.value))
        inside, result = self.plan.pop(0) if self.plan else (0, 2)
        if inside == 1:
            try:
                consumer.stop()
            except Exception:
                pass
        elif inside == 2:
            self.do_commit()
        if result == 0:
            self.done_blocks.extend(offs)
            return None
        if result == 1:
            raise CL.ProcessorBoom("scripted")
        d = Deferred()
        self.procs.append((d, offs))
        return d

    def do_commit(self):
        step = self.step_no
        try:
            d = self.consumer.commit()
        except Exception as e:
            self.commit_results.append((step, "raised", type(e).__name__))
            return

        def watch(d):
            def cb(r):
                from twisted.python.failure import Failure
                if isinstance(r, Failure):
                    self.commit_results.append((self.step_no, False, type(r.value).__name__))
                    inner = getattr(r.value, "deferred", None)
                    if inner is not None:
                        watch(inner)
                else:
                    self.commit_results.append((self.step_no, True, r))
                return None
            d.addBoth(cb)
        watch(d)

    # ------------------------------------------------------------ events
    def enabled(self):
        c = self.consumer
        running = c._start_d is not None
        ev = [("plan",)]
        ev.append(("start",) if not running else ("stop",))
        if running:
            ev += [("commit",), ("shutdown",)]
        self.procs = [d for d in self.procs if not d[0].called]
        if self.procs:
            ev.append(("proc_fire",))
        if self.pending():
            ev.append(("answer",))
        if self.clock.getDelayedCalls():
            ev.append(("timer",))
        return ev

    def step(self, ev):
        self.step_no += 1
        self.log_events.append(ev)
        c = self.consumer
        try:
            t = ev[0]
            if t == "start":
                d = c.start(ev[1])
                d.addBoth(lambda r: setattr(self, "start_result", (self.step_no, r)) or None)
            elif t == "stop":
                c.stop()
            elif t == "shutdown":
                c.shutdown().addBoth(lambda r: None)
            elif t == "commit":
                self.do_commit()
            elif t == "plan":
                self.plan.append((ev[1], ev[2]))
            elif t == "proc_fire":
                d, offs = self.procs[0]
                if ev[1]:
                    self.done_blocks.extend(offs)
                    d.callback(None)
                else:
                    from twisted.python.failure import Failure
                    d.errback(Failure(CL.ProcessorBoom("scripted")))
            elif t == "answer":
                br = self.reqs[ev[1]]
                if ev[2] == "fail":
                    self.fail(br)
                else:
                    self.answer(br, err=ev[2])
            elif t == "timer":
                calls = sorted(self.clock.getDelayedCalls(), key=lambda dc: dc.getTime())
                dc = calls[ev[1] % len(calls)]
                self.clock.calls.remove(dc)
                if dc.getTime() > self.clock.rightNow:
                    self.clock.rightNow = dc.getTime()
                dc.called = 1
                dc.func(*dc.args, **dc.kw)
        except Exception as e:
            import afkak.common as C
            if not isinstance(e, (C.RestartError, C.RestopError)):
                import traceback
                self.escaped = (self.step_no, repr(e), traceback.format_exc()[-1500:])
        lc, lp = c.last_committed_offset, c.last_processed_offset
        if lc != self.last_lc:
            self.lc_seen.append((self.step_no, lc))
            self.last_lc = lc
        if lp != self.last_lp:
            self.lp_seen.append((self.step_no, lp))
            self.last_lp = lp

    def gen_event(self, start_choices, fault=0.15):
        rnd = self.rnd
        en = self.enabled()
        w = {"plan": 5, "start": 12, "stop": 0.8, "commit": 3, "shutdown": 0.5, "proc_fire": 9, "answer": 22, "timer": 10}
        tot = sum(w[e[0]] for e in en)
        r = rnd.random() * tot
        for e in en:
            r -= w[e[0]]
            if r <= 0:
                break
        t = e[0]
        if t == "start":
            return ("start", rnd.choice(start_choices))
        if t == "plan":
            return ("plan", rnd.choice([0] * 14 + [1, 2, 2]), rnd.choice([0, 0, 0, 0, 0, 1, 2, 2]))
        if t == "proc_fire":
            return ("proc_fire", rnd.choice([1, 1, 1, 1, 0]))
        if t == "timer":
            return ("timer", rnd.choice([0, 0, 0, 1, 2]))
        if t == "answer":
            br = rnd.choice(self.pending())
            k = br.req["key"]
            if rnd.random() < fault:
                if rnd.random() < 0.25:
                    return ("answer", br.rid, "fail")
                if k in (K_COMMIT, K_OFETCH):
                    return ("answer", br.rid, rnd.choice(GROUP_ERRS))
                if k == K_COORD:
                    return ("answer", br.rid, rnd.choice([15, 15, 14, 16]))
                if k in (K_FETCH, K_OFFSETS):
                    return ("answer", br.rid, rnd.choice(FETCH_ERRS))
            return ("answer", br.rid, 0)
        return (t,)


def run_life(rnd, log, store, steps, start_choices, fault=0.15, **cfg):
    run = Run(rnd, log, store, **cfg)
    for _ in range(steps):
        if run.escaped:
            break
        run.step(run.gen_event(start_choices, fault))
    return run


def replay_life(rnd_seed, log, store, events, **cfg):
    import random
    run = Run(random.Random(rnd_seed), log, store, **cfg)
    for ev in events:
        run.step(tuple(ev))
    return run


# ---------------------------------------------------------------- monitors
def monitors(run, store0):
    """-> list of (theorem restated, what)"""
    res = []
    entries = run.log.entries
    m = LL.mon_values(run.values_seen, entries)
    if m:
        res.append(("C02_delivered_is_log_segment (key/value/offset are the broker's)", m))
    m = LL.mon_overlap(run.calls)
    if m:
        res.append(("C02_no_overlap", m))
    # what the broker acknowledged or reported
    ok_values = set(run.acked) | set(run.reported) | ({store0} if store0 is not None else set())
    for (step, lc) in run.lc_seen:
        if lc is not None and lc not in set(run.acked) | set(run.reported):
            res.append(("C03_committed_is_acked", "step %d: last_committed_offset became %r; the coordinator acknowledged %r and reported %r"
                        % (step, lc, sorted(set(run.acked)), sorted(set(run.reported)))))
            break
    for (step, ok, val) in run.commit_results:
        if ok is True and val is not None and val not in set(run.acked) | set(run.reported):
            res.append(("C03_committed_is_acked", "step %d: commit() fired with %r; the coordinator acknowledged %r and reported %r"
                        % (step, val, sorted(set(run.acked)), sorted(set(run.reported)))))
            break
    # commit requests carry an offset whose processing completed
    for (step, off, gen, member) in run.commit_reqs:
        if off not in run.done_blocks:
            res.append(("C03_commit_le_processed", "step %d: commit request for offset %r, which was not successfully processed (processed: ...%r)"
                        % (step, off, run.done_blocks[-6:])))
            break
        if member != "member-7":
            res.append(("C03 commit identity", "step %d: commit request carries member id %r" % (step, member)))
            break
    if run.double_commit:
        res.append(("C03_single_commit", "step %d: commit request %d sent while request %d is unanswered" % run.double_commit))
    if run.store.committed is not None and run.acked and run.store.committed != run.acked[-1]:
        res.append(("coordinator store", "store holds %r, last acknowledged %r" % (run.store.committed, run.acked[-1])))
    return res
