# Composed stream for C02 / C03: the REAL afkak.consumer.Consumer over the REAL afkak.client.KafkaClient; only the broker
# layer is scripted (KafkaClient._get_brokerclient / _send_bootstrap_request hand out ScriptedBroker objects whose
# makeRequest() parks the request bytes until the driver answers them).  Requests are parsed and answers encoded by code
# written here from the Kafka protocol guide (struct + harness/kafkaspec_resp.py), never by afkak.  The simulated cluster
# is consumer_log_lib.PartitionLog (ground-truth log) + an independent coordinator offset store that records an offset
# when, and only when, it answers the OffsetCommit request with error 0.
#
# Monitors (over what the application can see): every message handed to the processor against the log; every value a
# commit() Deferred fires with and every value of last_committed_offset against the set of offsets the store
# acknowledged with error 0 (or reported by OffsetFetch); commit request offsets against the last successfully processed
# offset; crash / restart from OFFSET_COMMITTED against the store.
import struct

import kafkaspec_resp as KS
from props import consumer_lib as CL
from props import consumer_log_lib as LL

TOPIC, PART, GROUP = "t", 3, "grp"
K_FETCH, K_OFFSETS, K_METADATA, K_COMMIT, K_OFETCH, K_COORD, K_APIV = 1, 2, 3, 8, 9, 10, 18
# error codes a group coordinator / partition leader may answer with
GROUP_ERRS = [14, 14, 14, 15, 15, 16, 16, 22, 25, 27, 12, 28, 30, 7, -1]
FETCH_ERRS = [3, 5, 6, 7, 9]


class Rd(object):
    def __init__(self, data, pos=0):
        self.d, self.p = data, pos

    def u(self, fmt):
        n = struct.calcsize(fmt)
        v = struct.unpack(fmt, self.d[self.p:self.p + n])
        self.p += n
        return v if len(v) > 1 else v[0]

    def s(self):
        n = self.u(">h")
        if n < 0:
            return None
        v = self.d[self.p:self.p + n]
        self.p += n
        return v.decode()


def parse_request(frame):
    """request bytes (no length prefix) -> dict(key, ver, corr, ...) for the APIs a Consumer uses"""
    r = Rd(frame)
    key, ver, corr = r.u(">hhi")
    r.s()
    out = {"key": key, "ver": ver, "corr": corr}
    if key == K_FETCH:
        r.u(">iii")
        ps = []
        for _ in range(r.u(">i")):
            t = r.s()
            for _ in range(r.u(">i")):
                p, off, mx = r.u(">iqi")
                ps.append((t, p, off, mx))
        out["parts"] = ps
    elif key == K_OFFSETS:
        r.u(">i")
        ps = []
        for _ in range(r.u(">i")):
            t = r.s()
            for _ in range(r.u(">i")):
                p, tm, mx = r.u(">iqi")
                ps.append((t, p, tm, mx))
        out["parts"] = ps
    elif key == K_METADATA:
        out["topics"] = [r.s() for _ in range(r.u(">i"))]
    elif key == K_COORD:
        out["group"] = r.s()
    elif key == K_OFETCH:
        out["group"] = r.s()
        ps = []
        for _ in range(r.u(">i")):
            t = r.s()
            for _ in range(r.u(">i")):
                ps.append((t, r.u(">i")))
        out["parts"] = ps
    elif key == K_COMMIT:
        out["group"] = r.s()
        if ver >= 1:
            out["generation"] = r.u(">i")
            out["member"] = r.s()
        if ver >= 2:
            r.u(">q")
        ps = []
        for _ in range(r.u(">i")):
            t = r.s()
            for _ in range(r.u(">i")):
                if ver == 1:
                    p, off, _ts = r.u(">iqq")
                else:
                    p, off = r.u(">iq")
                r.s()
                ps.append((t, p, off))
        out["parts"] = ps
    return out


class BrokerReq(object):
    def __init__(self, rid, node, frame, d):
        self.rid, self.node, self.frame, self.d = rid, node, frame, d
        self.req = parse_request(frame)
        self.done = False


class ScriptedBroker(object):
    def __init__(self, run, node):
        self.run, self.node_id = run, node
        self.host, self.port = "broker%d" % node, 9092

    def __repr__(self):
        return "<ScriptedBroker %d>" % self.node_id

    def connected(self):
        return True

    def updateMetadata(self, bm):
        pass

    def disconnect(self):
        pass

    def close(self):
        from twisted.internet.defer import succeed
        return succeed(None)

    def makeRequest(self, correlationId, request, expectResponse=True):
        return self.run.broker_request(self.node_id, request)


class ConnErr(Exception):
    pass


class Run(object):
    """one Consumer life over the real client.  log: LL.PartitionLog, store: LL.OffsetStore (shared across lives)"""

    def __init__(self, rnd, log, store, acn=0, acs=0, reset=0, maxatt=0, buf=4096, gen=-1, leader=1, coord=2):
        from twisted.internet.task import Clock
        from afkak.client import KafkaClient
        import afkak.consumer as AC
        CL.quiet()
        self.rnd, self.log, self.store = rnd, log, store
        self.leader, self.coord = leader, coord
        self.gen, self.reset = gen, reset
        # the same run in the vocabulary of consumer_log_lib's monitors (events / outputs per step / (lp, lc) at the end
        # of every step): a wire request is an output, the answer that reaches the Consumer is an event
        self.tr_events, self.tr_steps, self.tr_ends = [], [], []
        self.cur = []
        self.cur_event = ("other",)
        self.api_commits = []        # (step, offset, generation, member) of every client.send_offset_commit_request call
        self.wire_mismatch = None
        self.clock = Clock()
        self.reqs = {}
        self.nrid = 0
        self.plan = []
        self.procs = []
        self.calls = []              # (step, offsets, overlap)
        self.delivered = []
        self.values_seen = []
        self.commit_results = []     # (step, ok, value-or-failure-name) of every commit() Deferred (also OperationInProgress's)
        self.start_result = None
        self.lc_seen = []            # (step, last_committed_offset) whenever it changes
        self.lp_seen = []
        self.commit_reqs = []        # (step, offset sent, generation, member)
        self.acked = []              # offsets the store acknowledged with error 0
        self.reported = []           # offsets the store reported through OffsetFetch
        self.fetches = []            # (step, offset, max_bytes)
        self.escaped = None
        self.double_commit = None
        self.moves = 0.0             # weight of leader / coordinator moves in gen_event
        self.alive = False           # start() accepted, its Deferred not fired, no stop() / shutdown() called since
        self.idle_seen = None        # first step after which an alive consumer had nothing outstanding at all
        self.step_no = 0
        self.log_events = []         # what the driver did (for replay files)
        self.done_blocks = []        # offsets whose processing completed successfully
        real = KafkaClient("bootstrap:9092", reactor=self.clock, timeout=5000, enable_protocol_version_discovery=False)
        real._get_brokerclient = self._get_brokerclient
        real._send_bootstrap_request = lambda request: self.broker_request(-1, request)
        self.real = real
        self.brokers = {}
        orig_commit = real.send_offset_commit_request

        def send_offset_commit_request(group, payloads=None, fail_on_error=True, callback=None, group_generation_id=-1, consumer_id=''):
            # what the Consumer asks its client to commit (the client may first have to find the coordinator: the frame
            # leaves later, with the offset given here)
            for pl in payloads or []:
                self.api_commits.append((self.step_no, pl.offset, group_generation_id, consumer_id))
                self.cur.append((CL.OUT_COMMIT, pl.offset, group_generation_id))
            return orig_commit(group, payloads, fail_on_error, callback, group_generation_id, consumer_id)
        real.send_offset_commit_request = send_offset_commit_request
        self.consumer = AC.Consumer(
            real, TOPIC, PART, self.processor, consumer_group=GROUP,
            auto_commit_every_n=acn, auto_commit_every_ms=(700 if acs else 0),
            buffer_size=buf, request_retry_init_delay=0.5, request_retry_max_delay=1.7,
            request_retry_max_attempts=maxatt, auto_offset_reset={0: None, 1: CL.OFFSET_EARLIEST, 2: CL.OFFSET_LATEST}[reset],
            commit_consumer_id="member-7", commit_generation_id=gen)
        self.last_lc = self.last_lp = None

    # ------------------------------------------------------------ scripted cluster
    def _get_brokerclient(self, node_id):
        if node_id not in self.brokers:
            self.brokers[node_id] = ScriptedBroker(self, node_id)
        return self.brokers[node_id]

    def broker_request(self, node, frame):
        from twisted.internet.defer import Deferred
        rid = self.nrid
        self.nrid += 1
        br = BrokerReq(rid, node, bytes(frame), None)
        br.d = Deferred(lambda dd, br=br: setattr(br, "done", True))
        self.reqs[rid] = br
        k = br.req["key"]
        if k == K_COMMIT:
            [(t, p, off)] = br.req["parts"]
            self.commit_reqs.append((self.step_no, off, br.req.get("generation"), br.req.get("member")))
            want = self.api_commits[-1][1:] if self.api_commits else None
            if want != (off, br.req.get("generation"), br.req.get("member")) and self.wire_mismatch is None:
                self.wire_mismatch = (self.step_no, (off, br.req.get("generation"), br.req.get("member")), want)
            others = [r for r in self.reqs.values() if r is not br and r.req["key"] == K_COMMIT and not r.done and not r.d.called]
            if others and self.double_commit is None:
                self.double_commit = (self.step_no, rid, others[0].rid)
        elif k == K_FETCH:
            [(t, p, off, mx)] = br.req["parts"]
            self.fetches.append((self.step_no, off, mx))
            self.cur.append((CL.OUT_FETCH, off, mx))
        elif k == K_OFFSETS:
            self.cur.append((CL.OUT_OFFREQ, br.req["parts"][0][2]))
        elif k == K_OFETCH:
            self.cur.append((CL.OUT_OFFFETCH,))
        return br.d

    def pending(self):
        return [r for r in self.reqs.values() if not r.done and not r.d.called]

    def answer(self, br, err=0, garble=False):
        """the broker's reply to `br` (honest unless an error code is forced): response bytes through the real decoder"""
        q = br.req
        k, corr = q["key"], q["corr"]
        br.done = True
        if not err and k in (K_FETCH, K_OFFSETS) and br.node != self.leader:
            err = 6                                  # NotLeaderForPartition
        if not err and k in (K_COMMIT, K_OFETCH) and br.node != self.coord:
            err = 16                                 # NotCoordinatorForGroup
        if k == K_METADATA:
            brokers = [(1, b"broker1", 9092), (2, b"broker2", 9092), (3, b"broker3", 9092)]
            topics = [(0, TOPIC.encode(), [(0, PART, self.leader, [1, 2], [1, 2])])]
            data = KS.enc_metadata((corr, brokers, topics))
        elif k == K_COORD:
            data = KS.enc_coordinator((corr, err, self.coord, b"broker%d" % self.coord, 9092))
        elif k == K_OFFSETS:
            [(t, p, tm, mx)] = q["parts"]
            off = self.log.start if tm == CL.OFFSET_EARLIEST else self.log.end
            self.cur_event = (CL.EV_REQ_FAIL, CL.FK_KAFKA) if err else (CL.EV_REQ_OK, off)
            data = KS.enc_offsets((corr, [(t.encode(), [(p, err, [off] if not err else [])])]))
        elif k == K_OFETCH:
            [(t, p)] = q["parts"]
            c = self.store.committed
            if not err and c is not None:
                self.reported.append(c)
            self.cur_event = (CL.EV_REQ_FAIL, CL.FK_KAFKA) if err else (CL.EV_REQ_OK, -1 if c is None else c)
            data = KS.enc_ofetch((corr, [(t.encode(), [(p, -1 if (c is None or err) else c, b"", err)])]))
        elif k == K_COMMIT:
            [(t, p, off)] = q["parts"]
            if not err:
                self.store.committed = off          # the ONLY place the store changes
                self.store.acked.append(off)
                self.acked.append(off)
            data = KS.enc_commit((corr, [(t.encode(), [(p, err)])]))
        elif k == K_FETCH:
            [(t, p, off, mx)] = q["parts"]
            if err:
                self.cur_event = (CL.EV_REQ_FAIL, CL.FK_KAFKA)
                data = KS.enc_fetch(q["ver"], (corr, 0, [(t.encode(), [(p, err, -1, b"")])]))
            else:
                r = self.log.fetch(off, mx)
                if r[0] == "oor":
                    self.cur_event = (CL.EV_REQ_FAIL, CL.FK_OOR)
                    data = KS.enc_fetch(q["ver"], (corr, 0, [(t.encode(), [(p, 1, -1, b"")])]))
                else:
                    self.cur_event = (CL.EV_FETCH_OK, list(r[2]))
                    data = KS.enc_fetch(q["ver"], (corr, 0, [(t.encode(), [(p, 0, self.log.end, r[1])])]))
        else:
            raise ValueError("unexpected request key %r" % k)
        br.d.callback(data)

    def fail(self, br):
        from twisted.python.failure import Failure
        from afkak.common import KafkaUnavailableError
        br.done = True
        if br.req["key"] in (K_FETCH, K_OFFSETS, K_OFETCH):
            self.cur_event = (CL.EV_REQ_FAIL, CL.FK_KAFKA)
        br.d.errback(Failure(KafkaUnavailableError("scripted connection loss")))

    # ------------------------------------------------------------ application side
    def processor(self, consumer, msgs):
        from twisted.internet.defer import Deferred
        offs = [m.offset for m in msgs]
        self.procs = [d for d in self.procs if not d[0].called]
        self.calls.append((self.step_no, offs, len(self.procs) > 0))
        self.delivered.extend(offs)
        for m in msgs:
            self.values_seen.append((m.offset, m.message.key, m.message.value))
        self.cur.append((CL.OUT_CALLPROC, len(offs)) + tuple(offs))
        inside, result = self.plan.pop(0) if self.plan else (0, 2)
        if inside in (1, 3):
            self.alive = False
        if inside == 1:
            try:
                consumer.stop()
                self.cur.append((CL.OUT_RET, 0))
            except Exception:
                self.cur.append((CL.OUT_RAISED, 0))
        elif inside == 2:
            self.do_commit()
            self.cur.append((CL.OUT_RET, 0))
        elif inside == 3:
            try:
                consumer.shutdown().addBoth(lambda r: None)
                self.cur.append((CL.OUT_RET, 0))
            except Exception:
                self.cur.append((CL.OUT_RAISED, 0))
        if result == 0:
            self.done_blocks.extend(offs)
            return None
        if result == 1:
            raise CL.ProcessorBoom("scripted")
        d = Deferred(lambda dd: self.cur.append((CL.OUT_CANCEL_PROC,)))
        self.procs.append((d, offs))
        return d

    def do_commit(self):
        step = self.step_no
        try:
            d = self.consumer.commit()
        except Exception as e:
            self.commit_results.append((step, "raised", type(e).__name__))
            return

        def watch(d):
            def cb(r):
                from twisted.python.failure import Failure
                if isinstance(r, Failure):
                    self.commit_results.append((self.step_no, False, type(r.value).__name__))
                    inner = getattr(r.value, "deferred", None)
                    if inner is not None:
                        watch(inner)
                else:
                    self.commit_results.append((self.step_no, True, r))
                return None
            d.addBoth(cb)
        watch(d)

    # ------------------------------------------------------------ events
    def enabled(self):
        c = self.consumer
        running = c._start_d is not None
        ev = [("plan",), ("move",)]
        ev.append(("start",) if not running else ("stop",))
        if running:
            ev += [("commit",), ("shutdown",)]
        self.procs = [d for d in self.procs if not d[0].called]
        if self.procs:
            ev.append(("proc_fire",))
        if self.pending():
            ev.append(("answer",))
        if self.clock.getDelayedCalls():
            ev.append(("timer",))
        return ev

    def step(self, ev):
        self.step_no += 1
        self.log_events.append(ev)
        c = self.consumer
        self.cur = []
        self.cur_event = ("other",)
        try:
            t = ev[0]
            if t == "start":
                self.cur_event = (CL.EV_START, ev[1])
                d = c.start(ev[1])
                self.cur.append((CL.OUT_RET, 0))
                self.alive = True
                d.addBoth(lambda r: (setattr(self, "start_result", (self.step_no, r)), setattr(self, "alive", False)) and None)
            elif t == "move":
                if ev[1] == "leader":
                    self.leader = ev[2]
                else:
                    self.coord = ev[2]
            elif t == "stop":
                self.alive = False
                c.stop()
            elif t == "shutdown":
                self.alive = False
                c.shutdown().addBoth(lambda r: None)
            elif t == "commit":
                self.do_commit()
            elif t == "plan":
                self.cur_event = (CL.EV_PLAN, ev[1], ev[2])
                self.plan.append((ev[1], ev[2]))
            elif t == "proc_fire":
                self.cur_event = (CL.EV_PROC_FIRE, 1 if ev[1] else 0)
                d, offs = self.procs[0]
                if ev[1]:
                    self.done_blocks.extend(offs)
                    d.callback(None)
                else:
                    from twisted.python.failure import Failure
                    d.errback(Failure(CL.ProcessorBoom("scripted")))
            elif t == "answer":
                br = self.reqs[ev[1]]
                if ev[2] == "fail":
                    self.fail(br)
                else:
                    self.answer(br, err=ev[2])
            elif t == "timer":
                calls = sorted(self.clock.getDelayedCalls(), key=lambda dc: dc.getTime())
                dc = calls[ev[1] % len(calls)]
                self.clock.calls.remove(dc)
                if dc.getTime() > self.clock.rightNow:
                    self.clock.rightNow = dc.getTime()
                dc.called = 1
                dc.func(*dc.args, **dc.kw)
        except Exception as e:
            import afkak.common as C
            if not isinstance(e, (C.RestartError, C.RestopError)):
                import traceback
                self.escaped = (self.step_no, repr(e), traceback.format_exc()[-1500:])
        self.procs = [d for d in self.procs if not d[0].called]
        if (self.alive and not self.escaped and self.idle_seen is None and not self.procs and not self.pending()
                and not self.clock.getDelayedCalls()):
            self.idle_seen = self.step_no
        lc, lp = c.last_committed_offset, c.last_processed_offset
        self.tr_events.append(self.cur_event)
        self.tr_steps.append(self.cur)
        self.tr_ends.append((CL.NONE if lp is None else lp, CL.NONE if lc is None else lc))
        if lc != self.last_lc:
            self.lc_seen.append((self.step_no, lc))
            self.last_lc = lc
        if lp != self.last_lp:
            self.lp_seen.append((self.step_no, lp))
            self.last_lp = lp

    def gen_event(self, start_choices, fault=0.15):
        rnd = self.rnd
        en = self.enabled()
        w = {"plan": 5, "move": self.moves, "start": 12, "stop": 0.8, "commit": 3, "shutdown": 0.5, "proc_fire": 9, "answer": 22, "timer": 10}
        tot = sum(w[e[0]] for e in en)
        r = rnd.random() * tot
        for e in en:
            r -= w[e[0]]
            if r <= 0:
                break
        t = e[0]
        if t == "start":
            return ("start", rnd.choice(start_choices))
        if t == "move":
            return ("move", rnd.choice(["leader", "leader", "coord"]), rnd.choice([1, 2, 3]))
        if t == "plan":
            return ("plan", rnd.choice([0] * 14 + [1, 2, 2, 3]), rnd.choice([0, 0, 0, 0, 0, 1, 2, 2]))
        if t == "proc_fire":
            return ("proc_fire", rnd.choice([1, 1, 1, 1, 0]))
        if t == "timer":
            return ("timer", rnd.choice([0, 0, 0, 1, 2]))
        if t == "answer":
            br = rnd.choice(self.pending())
            k = br.req["key"]
            if rnd.random() < fault:
                if rnd.random() < 0.25:
                    return ("answer", br.rid, "fail")
                if k in (K_COMMIT, K_OFETCH):
                    return ("answer", br.rid, rnd.choice(GROUP_ERRS))
                if k == K_COORD:
                    return ("answer", br.rid, rnd.choice([15, 15, 14, 16]))
                if k in (K_FETCH, K_OFFSETS):
                    return ("answer", br.rid, rnd.choice(FETCH_ERRS))
            return ("answer", br.rid, 0)
        return (t,)


def run_life(rnd, log, store, steps, start_choices, fault=0.15, moves=0.0, **cfg):
    run = Run(rnd, log, store, **cfg)
    run.moves = moves
    for _ in range(steps):
        if run.escaped:
            break
        run.step(run.gen_event(start_choices, fault))
    return run


def directed_commit_error(rnd, log, store, err, on="commit", **cfg):
    """a short scripted life: start, two blocks processed, commit(); the answer to the OffsetCommit frame (on="commit")
    or to the OffsetFetch frame of start(OFFSET_COMMITTED) (on="ofetch") carries error code `err`; everything else is
    answered honestly, timers fire, and the retried request (if any) succeeds"""
    run = Run(rnd, log, store, **cfg)
    errs = {K_COMMIT if on == "commit" else K_OFETCH: [err]}

    def drain(n, until=lambda: False):
        for _ in range(n):
            if run.escaped or until():
                return
            pend = run.pending()
            if pend:
                br = pend[0]
                lst = errs.get(br.req["key"])
                run.step(("answer", br.rid, lst.pop(0) if lst else 0))
            elif run.clock.getDelayedCalls():
                # the commit retry first (the refetch timer of an idle consumer would otherwise always be the earliest)
                calls = sorted(run.clock.getDelayedCalls(), key=lambda dc: dc.getTime())
                idx = [i for i, dc in enumerate(calls) if getattr(dc.func, "__name__", "") == "_send_commit_request"]
                run.step(("timer", idx[0] if idx else 0))
            else:
                return
    for _ in range(3):
        run.step(("plan", 0, 0))
    run.step(("start", CL.OFFSET_COMMITTED if on == "ofetch" else CL.OFFSET_EARLIEST))
    drain(14)
    run.step(("commit",))
    drain(120, lambda: bool(run.commit_results))
    drain(4)
    return run


def replay_life(rnd_seed, log, store, events, **cfg):
    import random
    run = Run(random.Random(rnd_seed), log, store, **cfg)
    for ev in events:
        run.step(tuple(ev))
    return run


def log_units_json(log):
    return [[u.kind, u.magic, [[o, list(k) if k is not None else None, list(v) if v is not None else None] for (o, k, v) in u.entries]]
            for u in log.units]


def replay_composed(rp):
    """replay file of a composed life (C02 / C03) -> exit status"""
    import json
    import random
    log = LL.PartitionLog(random.Random(0), n=0, first=0)
    for (kind, magic, ents) in rp.get("log_units", []):
        log.units.append(LL.Unit(kind, magic, [(o, None if k is None else bytes(k), None if v is None else bytes(v)) for (o, k, v) in ents]))
    if log.units:
        log.start = log.units[0].entries[0][0]
        log.next = log.units[-1].entries[-1][0] + 1
    store = LL.OffsetStore(rp.get("store0"))
    run = replay_life(rp.get("seed", 0), log, store, rp["events"], **rp["cfg"])
    bad = monitors(run, rp.get("store0"))
    if run.escaped:
        bad.append(("no exception escapes a stimulus", "step %d: %s" % (run.escaped[0], run.escaped[1])))
    print("delivered:", run.delivered)
    print("fetch requests (step, offset, max_bytes):", run.fetches[:40])
    print("commit requests:", run.commit_reqs)
    print("acknowledged:", run.acked, "commit() results:", run.commit_results, "last_committed_offset history:", run.lc_seen)
    print("monitor verdicts:", json.dumps(bad, indent=1, default=repr))
    return 1 if bad else 0


# ---------------------------------------------------------------- monitors
def monitors(run, store0):
    """-> list of (theorem restated, what)"""
    res = []
    entries = run.log.entries
    m = LL.mon_values(run.values_seen, entries)
    if m:
        res.append(("C02_delivered_is_log_segment (key/value/offset are the broker's)", m))
    m = LL.mon_overlap(run.calls)
    if m:
        res.append(("C02_no_overlap", m))
    # order / gaps / repeats / contiguity of the fetch offsets, over the wire requests and the answers given
    m = LL.mon_log(run.tr_events, run.tr_steps, entries, run.reset)
    if m:
        res.append(("C02_delivered_is_log_segment (composed)", m))
    # what the Consumer asks its client to commit = end of the most recent successfully completed block; nothing
    # delivered at or below it is unprocessed; last_processed_offset
    m = LL.mon_commit(run.tr_events, run.tr_steps, run.tr_ends)
    if m:
        res.append(("C03_commit_le_processed (composed)", m))
    if run.idle_seen is not None:
        res.append(("C02_progress (an alive consumer whose processor is not running has something outstanding)",
                    "after step %d the consumer is alive, no processor result is pending, no request is at any broker and no timer is armed"
                    % run.idle_seen))
    if run.wire_mismatch:
        res.append(("C03 commit identity (offset, generation, member on the wire = what the Consumer asked for)",
                    "step %d: OffsetCommit frame carries %r, the Consumer asked for %r" % run.wire_mismatch))
    # what the broker acknowledged or reported
    ok_values = set(run.acked) | set(run.reported) | ({store0} if store0 is not None else set())
    for (step, lc) in run.lc_seen:
        if lc is not None and lc not in set(run.acked) | set(run.reported):
            res.append(("C03_committed_is_acked", "step %d: last_committed_offset became %r; the coordinator acknowledged %r and reported %r"
                        % (step, lc, sorted(set(run.acked)), sorted(set(run.reported)))))
            break
    for (step, ok, val) in run.commit_results:
        if ok is True and val is not None and val not in set(run.acked) | set(run.reported):
            res.append(("C03_committed_is_acked", "step %d: commit() fired with %r; the coordinator acknowledged %r and reported %r"
                        % (step, val, sorted(set(run.acked)), sorted(set(run.reported)))))
            break
    # commit requests carry an offset whose processing completed
    for (step, off, gen, member) in run.commit_reqs:
        if off not in run.done_blocks:
            res.append(("C03_commit_le_processed", "step %d: commit request for offset %r, which was not successfully processed (processed: ...%r)"
                        % (step, off, run.done_blocks[-6:])))
            break
        if member != "member-7" or gen != run.gen:
            res.append(("C03 commit identity (value, generation, member)",
                        "step %d: OffsetCommit frame carries generation %r, member %r; configured %r, 'member-7'" % (step, gen, member, run.gen)))
            break
    if run.double_commit:
        res.append(("C03_single_commit", "step %d: commit request %d sent while request %d is unanswered" % run.double_commit))
    if run.store.committed is not None and run.acked and run.store.committed != run.acked[-1]:
        res.append(("coordinator store", "store holds %r, last acknowledged %r" % (run.store.committed, run.acked[-1])))
    return res
