# Model-vs-implementation self test of the shared codec models (not a registered property check).
#   cd /verif && /venv/bin/python harness/props/codec_selftest.py [seed] [scale]
import os
import sys
import time

HERE = os.path.dirname(os.path.abspath(__file__))
sys.path.insert(0, os.path.dirname(HERE))
sys.path.insert(0, HERE)
import vlib  # noqa: E402

vlib.import_repo()
import codec_lib  # noqa: E402


def main():
    seed = int(sys.argv[1]) if len(sys.argv) > 1 else 0
    scale = int(sys.argv[2]) if len(sys.argv) > 2 else 1
    t0 = time.time()
    vlib.build_all([codec_lib.MODEL], targets=["Model/CodecRun.vo"])
    t1 = time.time()
    n, diffs, hist, (labels, cases, impls, mo) = codec_lib.selftest(None, seed, scale)
    groups = {}
    for l, c in hist.items():
        g = l.split("_")[0] + "_" + l.split("_")[1] if l.startswith(("decode_", "create_")) else l
        groups[g] = groups.get(g, 0) + c
    outcomes = {}
    for l, tr in zip(labels, impls):
        if l.startswith("decode_"):
            k = codec_lib.ERR_NAMES.get(tr[-1], "exhausted") if tr[-1] else "exhausted"
            outcomes[k] = outcomes.get(k, 0) + 1
    print("cases: %d   build %.1fs   run %.1fs" % (n, t1 - t0, time.time() - t1))
    print("by group:", ", ".join("%s=%d" % kv for kv in sorted(groups.items())))
    print("decoder outcomes:", ", ".join("%s=%d" % kv for kv in sorted(outcomes.items())))
    print("decoder cases that delivered >=1 message then raised:",
          sum(1 for l, tr in zip(labels, impls) if l.startswith("decode_") and tr[0] > 0 and tr[-1] != 0))
    print("differences: %d" % len(diffs))
    for label, case, impl, model in diffs[:15]:
        print("  DIFF %s\n    case  %s\n    impl  %s\n    model %s" % (label, case[:80], impl[:60], model[:60]))
    return 1 if diffs else 0


if __name__ == "__main__":
    sys.exit(main())
