# S-Kafka, response side, in Python: an INDEPENDENT encoder of Kafka responses and message sets written from the
# grammar of the Kafka protocol guide (https://kafka.apache.org/protocol) for exactly the API versions afkak speaks.
# It imports NOTHING from afkak (and does not use `struct`, so that not even the packing idiom is shared).
# The same grammar is transcribed in Gallina in coq/Model/KafkaSpecResp.v; harness/props/C05.py compares the two
# byte for byte on every abstract response it generates, so the two transcriptions validate each other.
#
# Abstract values (mirroring the records of KafkaSpecResp.v); every string is its UTF-8 `bytes`:
#   produce      (corr, [(name, [(index, error, base_offset, log_append_time)])], throttle)
#   fetch        (corr, throttle, [(name, [(index, error, high_watermark, records|None)])])
#   offsets      (corr, [(name, [(index, error, [offset])])])
#   metadata     (corr, [(node, host, port)], [(error, name, [(error, index, leader, [replica], [isr])])])
#   commit       (corr, [(name, [(index, error)])])
#   ofetch       (corr, [(name, [(index, offset, metadata|None, error)])])
#   coordinator  (corr, error, node, host, port)
#   join         (corr, error, generation, protocol, leader, member, [(member_id, metadata)])
#   errcode      (corr, error)                          Heartbeat / LeaveGroup
#   sync         (corr, error, assignment)
#   apiversions  (corr, error, [(key, min, max)])
#   subscription (version, [topic], user_data|None)
#   assignment   (version, [(topic, [partition])], user_data|None)
#   kmsg         (magic, attr, ts, key|None, value|None)
#   tree         ("leaf", offset, kmsg)  |  ("wrap", offset, magic, attr, ts, key|None, [tree])
import gzip as _gzip
import io
import zlib


# ------------------------------------------------------------------ primitive types
def _int(v, nbytes):
    """big-endian two's complement of v modulo 256**nbytes (total, like the Gallina byte_at)"""
    return (v % (1 << (8 * nbytes))).to_bytes(nbytes, "big")


def INT8(v):
    return _int(v, 1)


def INT16(v):
    return _int(v, 2)


def INT32(v):
    return _int(v, 4)


def INT64(v):
    return _int(v, 8)


def STRING(s):
    return INT16(len(s)) + bytes(s)


def NULLABLE_STRING(s):
    return INT16(-1) if s is None else STRING(s)


def BYTES(b):
    return INT32(len(b)) + bytes(b)


def NULLABLE_BYTES(b):
    return INT32(-1) if b is None else BYTES(b)


def ARRAY(elem, xs):
    return INT32(len(xs)) + b"".join(elem(x) for x in xs)


# ------------------------------------------------------------------ responses (header = correlation id)
def enc_produce(ver, r):
    corr, topics, throttle = r

    def part(p):
        index, error, offset, lat = p
        return INT32(index) + INT16(error) + INT64(offset) + (INT64(lat) if ver >= 2 else b"")
    return (INT32(corr) + ARRAY(lambda t: STRING(t[0]) + ARRAY(part, t[1]), topics)
            + (INT32(throttle) if ver >= 1 else b""))


def enc_fetch(ver, r):
    corr, throttle, topics = r

    def part(p):
        index, error, hwm, records = p
        return INT32(index) + INT16(error) + INT64(hwm) + NULLABLE_BYTES(records)
    return (INT32(corr) + (INT32(throttle) if ver >= 1 else b"")
            + ARRAY(lambda t: STRING(t[0]) + ARRAY(part, t[1]), topics))


def enc_offsets(r):
    corr, topics = r

    def part(p):
        index, error, offsets = p
        return INT32(index) + INT16(error) + ARRAY(INT64, offsets)
    return INT32(corr) + ARRAY(lambda t: STRING(t[0]) + ARRAY(part, t[1]), topics)


def enc_metadata(r):
    corr, brokers, topics = r

    def broker(b):
        node, host, port = b
        return INT32(node) + STRING(host) + INT32(port)

    def part(p):
        error, index, leader, replicas, isr = p
        return INT16(error) + INT32(index) + INT32(leader) + ARRAY(INT32, replicas) + ARRAY(INT32, isr)

    def topic(t):
        error, name, parts = t
        return INT16(error) + STRING(name) + ARRAY(part, parts)
    return INT32(corr) + ARRAY(broker, brokers) + ARRAY(topic, topics)


def enc_commit(r):
    corr, topics = r
    return INT32(corr) + ARRAY(lambda t: STRING(t[0]) + ARRAY(lambda p: INT32(p[0]) + INT16(p[1]), t[1]), topics)


def enc_ofetch(r):
    corr, topics = r

    def part(p):
        index, offset, metadata, error = p
        return INT32(index) + INT64(offset) + NULLABLE_STRING(metadata) + INT16(error)
    return INT32(corr) + ARRAY(lambda t: STRING(t[0]) + ARRAY(part, t[1]), topics)


def enc_coordinator(r):
    corr, error, node, host, port = r
    return INT32(corr) + INT16(error) + INT32(node) + STRING(host) + INT32(port)


def enc_join(r):
    corr, error, generation, protocol, leader, member, members = r
    return (INT32(corr) + INT16(error) + INT32(generation) + STRING(protocol) + STRING(leader) + STRING(member)
            + ARRAY(lambda m: STRING(m[0]) + BYTES(m[1]), members))


def enc_errcode(r):
    corr, error = r
    return INT32(corr) + INT16(error)


def enc_sync(r):
    corr, error, assignment = r
    return INT32(corr) + INT16(error) + BYTES(assignment)


def enc_apiversions(r):
    corr, error, keys = r
    return INT32(corr) + INT16(error) + ARRAY(lambda k: INT16(k[0]) + INT16(k[1]) + INT16(k[2]), keys)


def enc_subscription(r):
    version, topics, user_data = r
    return INT16(version) + ARRAY(STRING, topics) + NULLABLE_BYTES(user_data)


def enc_assignment(r):
    version, topics, user_data = r
    return (INT16(version) + ARRAY(lambda a: STRING(a[0]) + ARRAY(INT32, a[1]), topics)
            + NULLABLE_BYTES(user_data))


# ------------------------------------------------------------------ message sets (formats 0 and 1)
def enc_kmsg(m):
    magic, attr, ts, key, value = m
    body = INT8(magic) + INT8(attr) + (INT64(ts) if magic == 1 else b"") + NULLABLE_BYTES(key) + NULLABLE_BYTES(value)
    return INT32(zlib.crc32(body) & 0xFFFFFFFF) + body


def enc_entry(offset, msg):
    return INT64(offset) + INT32(len(msg)) + msg


def enc_kset(entries):
    return b"".join(enc_entry(o, enc_kmsg(m)) for o, m in entries)


def gzip_compress(data):
    """deterministic gzip member (mtime 0)"""
    buf = io.BytesIO()
    with _gzip.GzipFile(fileobj=buf, mode="w", mtime=0) as h:
        h.write(bytes(data))
    return buf.getvalue()


def enc_ktree(t, gz=gzip_compress, table=None):
    """bytes of one message-set entry; `table` (a list) collects the (input, output) pairs handed to gz"""
    if t[0] == "leaf":
        _, off, m = t
        return enc_entry(off, enc_kmsg(m))
    _, off, magic, attr, ts, key, kids = t
    inner = enc_kforest(kids, gz, table)
    z = gz(inner)
    if table is not None:
        table.append((inner, z))
    return enc_entry(off, enc_kmsg((magic, attr, ts, key, z)))


def enc_kforest(ts, gz=gzip_compress, table=None):
    return b"".join(enc_ktree(t, gz, table) for t in ts)


# what a consumer must see, by the offset rules of the protocol:
#   magic-0 wrapper: inner messages carry absolute offsets;
#   magic-1 wrapper (KIP-31): inner offsets are relative, the wrapper carries the absolute offset of the LAST inner
#   message:  absolute = wrapper_offset - last_inner_offset + inner_offset
def log_of(t):
    if t[0] == "leaf":
        return [(t[1], t[2])]
    _, off, magic, attr, ts, key, kids = t
    inner = log_of_forest(kids)
    if magic == 0 or not inner:
        return inner if magic == 0 else []
    last = inner[-1][0]
    return [(off - last + o, m) for o, m in inner]


def log_of_forest(ts):
    out = []
    for t in ts:
        out += log_of(t)
    return out


# ------------------------------------------------------------------ KIP-31 from the broker's side (the definition)
# The log gives the messages of a batch absolute offsets a_0 < ... < a_k.  Stored compressed in format 1, every inner
# message carries r_i = a_i - base (base = the offset the first message of the batch had when it was written; after
# compaction survivors keep their r_i) and the wrapper carries a_k, the absolute offset of the LAST inner message.
# A consumer must see the messages at a_0 .. a_k: `abs_log` itself is the expectation, no formula involved.
def broker_batch_v1(base, attr, ts, key, abs_log):
    """abs_log = [(absolute offset, kmsg)]"""
    last = abs_log[-1][0] if abs_log else 0
    return ("wrap", last, 1, attr, ts, key, [("leaf", a - base, m) for a, m in abs_log])


def broker_batch_v0(attr, ts, key, abs_log):
    last = abs_log[-1][0] if abs_log else 0
    return ("wrap", last, 0, attr, ts, key, [("leaf", a, m) for a, m in abs_log])


def k_tstype(m):
    """attributes bit 3 of a format-1 message: 0 CreateTime, 1 LogAppendTime"""
    magic, attr, ts, key, value = m
    return (attr >> 3) & 1 if magic == 1 else 0
