# C18, tie (A) part 2: this run's translation of the partitioner classes of afkak/partitioner.py (harness/py2part.py) is
# proved equal to the hand-written model Model/Partitioner.v in a scratch directory coq/Run/out/gen/<id>/ (untracked);
# same scheme as harness/murmur_tie.py (part 1, pure_murmur2) and harness/assign_tie.py.
#     PartitionerGenRun.v   = the translation
#     PartitionerGenRunEq.v = Proofs/PartitionerGenEq.v   (generic tactics of Proofs/PartitionerGenTac.v)
#     C18genpRun.v          = Props/C18genp.v             (statements + Print Assumptions)
import fcntl
import glob
import hashlib
import os
import re
import shutil
import time

import vlib

GEN = os.path.join(vlib.OUT, "gen")
BASE_TARGETS = ["Proofs/PartitionerGenTac.vo", "Model/PartitionerPy.vo"]
SNAP_MODULES = r"(Model\.PartitionerGen|Proofs\.PartitionerGenEq)\b"
SNAPSHOT = os.path.join(vlib.COQ, "Model", "PartitionerGen.v")
PARTS = {"rr": {"files": [("PartitionerGenRun", 120), ("PartitionerGenRunEq", 300)], "props": "C18genpRun", "tracked_props": "Props/C18genp.v"}}


def _retarget(text, run_imports):
    lines, done = [], False
    for line in text.splitlines():
        if line.startswith("From AV Require Import"):
            line = re.sub(r"\s+" + SNAP_MODULES, "", line)
            lines.append(line)
            if not done:
                lines.append("From AVRun Require Import %s." % " ".join(run_imports))
                done = True
        else:
            lines.append(line)
    if not done:
        raise vlib.CheckAbort("tracked proof file without a `From AV Require Import` line")
    return "\n".join(lines) + "\n"


def scratch_texts(translation, wrap=None):
    rd = lambda rel: open(os.path.join(vlib.COQ, rel)).read()
    return {"PartitionerGenRun.v": translation,
            "PartitionerGenRunEq.v": _retarget(rd("Proofs/PartitionerGenEq.v"), ["PartitionerGenRun"]),
            "C18genpRun.v": _retarget(rd("Props/C18genp.v"), ["PartitionerGenRun", "PartitionerGenRunEq"])}


def _prune(keep):
    for d in glob.glob(os.path.join(GEN, "*")):
        try:
            if os.path.isdir(d) and os.path.basename(d) != keep and time.time() - os.path.getmtime(d) > 86400:
                shutil.rmtree(d, ignore_errors=True)
        except OSError:
            pass


def make_base(jobs=8):
    """the tracked files the scratch proof needs (never the snapshot)"""
    lock = open(os.path.join(vlib.COQ, ".lock"), "w")
    fcntl.flock(lock, fcntl.LOCK_EX)
    try:
        files = vlib.vfiles()
        proj = "-Q . AV\n-arg -w -arg -notation-overridden,-deprecated,-non-recursive\n" + "\n".join(files) + "\n"
        pj = os.path.join(vlib.COQ, "_CoqProject")
        if not os.path.exists(pj) or open(pj).read() != proj or not os.path.exists(os.path.join(vlib.COQ, "Makefile")):
            open(pj, "w").write(proj)
            vlib.sh("coq_makefile -f _CoqProject -o Makefile", 120, cwd=vlib.COQ)
        rc, o = vlib.sh("timeout 900 make -j%d %s 2>&1" % (jobs, " ".join(BASE_TARGETS)), 1000, cwd=vlib.COQ)
        return rc == 0, o[-3000:]
    finally:
        fcntl.flock(lock, fcntl.LOCK_UN)
        lock.close()


def compile_scratch(translation, wrap=None):
    """Compile (cached per text) the run's translation and its proof; ALWAYS re-compiles the statements file afresh and
    parses its Print Assumptions output.
    Returns {ok, log, dir, theorems:[{name, axioms, accepted}], obligations, discharged, cmd, stage}"""
    part = PARTS["rr" if wrap is None else "wrap"]
    pname = part["props"]
    texts = scratch_texts(translation, wrap)
    ident = "c18p_" + hashlib.sha1("\0".join(texts[k] for k in sorted(texts)).encode()).hexdigest()[:16]
    d = os.path.join(GEN, ident)
    os.makedirs(d, exist_ok=True)
    _prune(ident)
    rel = os.path.relpath(d, vlib.COQ)
    res = {"ok": False, "log": "", "dir": d, "theorems": [], "obligations": 0, "discharged": 0, "stage": "", "cmd": ""}
    cf = vlib.comment_free(texts[pname + ".v"])
    thms = re.findall(r"^\s*Theorem\s+([\w']+)", cf, re.M)
    prints = re.findall(r"^\s*Print\s+Assumptions\s+([\w']+)", cf, re.M)
    res["obligations"] = len(thms)
    if set(thms) - set(prints):
        raise vlib.CheckAbort(part["tracked_props"] + ": theorems without Print Assumptions")
    lock = open(os.path.join(d, ".lock"), "w")
    fcntl.flock(lock, fcntl.LOCK_EX)
    try:
        for name, text in texts.items():
            p = os.path.join(d, name)
            if not os.path.exists(p) or open(p).read() != text:
                open(p, "w").write(text)
        base_vo = [os.path.join(vlib.COQ, t) for t in BASE_TARGETS]
        newest = max(os.path.getmtime(f) for f in base_vo if os.path.exists(f))
        flags = "-Q . AV -Q %s AVRun -w -notation-overridden,-deprecated" % rel
        for name, tmo in part["files"]:
            vo = os.path.join(d, name + ".vo")
            if os.path.exists(vo) and os.path.getmtime(vo) >= newest and os.path.getmtime(vo) >= os.path.getmtime(os.path.join(d, name + ".v")):
                continue
            try:
                os.remove(vo)
            except OSError:
                pass
            cmd = "timeout %d coqc %s %s/%s.v" % (tmo, flags, rel, name)
            rc, out = vlib.sh(cmd, tmo + 30, cwd=vlib.COQ)
            if rc or not os.path.exists(vo):
                res["stage"] = name
                res["log"] = ("%s does not compile (%s)\n" % (name, "the translation is not well-typed Gallina" if not name.endswith("Eq")
                              else "DIFFERS: the generic proof does not establish generated = hand-written model")) + out[-2500:]
                return res
        cmd = "timeout 300 coqc %s %s/%s.v" % (flags, rel, pname)
        res["cmd"] = "cd /verif/coq && " + cmd
        rc, out = vlib.sh(cmd, 330, cwd=vlib.COQ)
        if rc:
            res["stage"] = pname
            res["log"] = pname + ".v does not compile (DIFFERS: e.g. the non-vacuity example no longer computes)\n" + out[-2500:]
            return res
        blocks = vlib.parse_assumptions(out)
        if len(blocks) != len(prints):
            res["stage"] = pname
            res["log"] = "Print Assumptions blocks %d != expected %d\n%s" % (len(blocks), len(prints), out[-1500:])
            return res
        good = True
        for name, ax in zip(prints, blocks):
            okax = all(a in vlib.STDLIB_AXIOMS or a.split(".")[-1] in vlib.STDLIB_AXIOMS for a in ax)
            res["theorems"].append({"name": name + " (this run's translation)", "axioms": ax, "accepted": okax})
            if name in thms:
                if okax:
                    res["discharged"] += 1
                else:
                    good = False
                    res["log"] += "theorem %s depends on non-stdlib axioms %r\n" % (name, ax)
        res["ok"] = good and res["discharged"] == len(thms)
        return res
    finally:
        fcntl.flock(lock, fcntl.LOCK_UN)
        lock.close()


def partitioner_tie(ck):
    """(state, reason): state in {"intact", "unavailable", "differs"}; on "intact" the obligations are added to the evidence"""
    import py2part
    ok, text, msg = py2part.translate_repo(vlib.REPO)
    info = {"source": os.path.join(vlib.REPO, "afkak/partitioner.py") + ":HashedPartitioner.partition/_hash, RoundRobinPartitioner.__init__/_set_partitions/partition",
            "translated": ok, "message": msg}
    ck.cov["translator_classes"] = info
    if not ok:
        return "unavailable", "translation refused (%s)" % msg
    try:
        info["same_as_committed_snapshot_Model/PartitionerGen.v"] = (open(SNAPSHOT).read() == text)
    except OSError:
        info["same_as_committed_snapshot_Model/PartitionerGen.v"] = False
    okb, log = make_base()
    if not okb:
        raise vlib.CheckAbort("coq build of Proofs/PartitionerGenTac.v failed:\n" + log)
    r = compile_scratch(text)
    info["scratch_dir"] = os.path.relpath(r["dir"], vlib.ROOT)
    if not r["ok"]:
        info["proof"] = r["log"][-1500:]
        first = r["log"].strip().splitlines()[0] if r["log"].strip() else r["stage"]
        return ("differs" if r["stage"] != "PartitionerGenRun" else "unavailable"), first
    ck.cov["obligations"] += r["obligations"]
    ck.cov["discharged"] += r["discharged"]
    ck.cov["theorems"] += r["theorems"]
    ck.cov["checker_cmd"] += " ; " + r["cmd"]
    ck.cov["trusted_base"].append("translator harness/py2part.py (methods read as the combinators of Model/PartitionerPy.v; keys as pkey, exceptions as pres, objects as attribute tuples, itertools.cycle as (list, index), randint as an oracle input)")
    return "intact", "intact"


def refresh_snapshot():
    """rewrite the committed snapshot coq/Model/PartitionerGen.v from /repo - only after its proof compiled in scratch"""
    import py2part
    ok, text, msg = py2part.translate_repo("/repo")
    if not ok:
        return False, "snapshot kept; /repo not translatable: " + msg
    old = open(SNAPSHOT).read() if os.path.exists(SNAPSHOT) else None
    if old == text:
        return True, "snapshot up to date"
    okb, log = make_base()
    r = compile_scratch(text) if okb else {"ok": False, "log": log}
    if not r["ok"]:
        return False, "snapshot kept; the proof about the new translation does not compile: " + r["log"][-300:]
    tmp = SNAPSHOT + ".tmp%d" % os.getpid()
    open(tmp, "w").write(text)
    os.replace(tmp, SNAPSHOT)
    return True, "snapshot refreshed"


if __name__ == "__main__":
    print(refresh_snapshot())
